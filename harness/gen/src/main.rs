//! dv_gen <seed> <out.rs> [count]: emit a set of random `#[derive(Deserr)]` inputs together
//! with their descriptors (`Described`), `ToModel` impls and registry entries.
//!
//! The effective keys written into the descriptors are computed HERE, by the harness' own
//! implementation of the documented rule (rename > applicable rename_all > identifier),
//! never by deserr.

use proptest::test_runner::{RngAlgorithm, TestRng};
use rand::Rng;
use std::fmt::Write;

struct R {
    rng: TestRng,
    next_probe: u32,
}
impl R {
    fn below(&mut self, n: usize) -> usize {
        if n == 0 {
            0
        } else {
            self.rng.random_range(0..n)
        }
    }
    fn chance(&mut self, p: f64) -> bool {
        self.rng.random_bool(p)
    }
    fn pick<'a, T>(&mut self, xs: &'a [T]) -> &'a T {
        &xs[self.below(xs.len())]
    }
    fn probe(&mut self) -> u32 {
        self.next_probe += 1;
        self.next_probe
    }
}

#[derive(Clone, Debug)]
struct PoolTy {
    rust: String,
    /// implements Default
    default_ok: bool,
    /// expressions usable in `default = expr`
    exprs: Vec<String>,
    /// usable with the `map` probe (implements Bump)
    bump: bool,
    /// nesting level of generated types inside
    level: usize,
    /// only usable under Rec error types (pinned types); never used as a field type
    generic: bool,
}

fn p(rust: &str, default_ok: bool, exprs: &[&str], bump: bool) -> PoolTy {
    PoolTy { rust: rust.into(), default_ok, exprs: exprs.iter().map(|s| s.to_string()).collect(), bump, level: 0, generic: true }
}

fn base_pool() -> Vec<PoolTy> {
    vec![
        p("u8", true, &["7u8", "200u8", "77u8"], true),
        p("i16", true, &["-5i16", "300i16"], true),
        p("u32", true, &["77u32", "12u32"], true),
        p("i64", true, &["-9i64"], true),
        p("u64", true, &["101u64", "4u64"], true),
        p("bool", true, &["true"], true),
        p("String", true, &["String::from(\"dflt\")", "String::from(\"bad\")"], true),
        p("char", true, &["'z'"], false),
        p("f64", true, &["1.5f64"], false),
        p("NonZeroU8", false, &["NonZeroU8::new(9).unwrap()"], false),
        p("()", true, &[], false),
        p("Option<u8>", true, &["Some(3u8)"], true),
        p("Option<String>", true, &["Some(String::from(\"x\"))"], true),
        p("Option<bool>", true, &[], true),
        p("Option<i16>", true, &["Some(-1i16)"], true),
        p("Vec<u8>", true, &["vec![1u8, 2u8]"], false),
        p("Vec<String>", true, &[], false),
        p("Vec<Option<u8>>", true, &[], false),
        p("BTreeMap<String, u8>", true, &[], false),
        p("BTreeMap<String, Vec<u8>>", true, &[], false),
        p("(u8, String)", true, &[], false),
        p("(bool, i16, u8)", true, &[], false),
        p("[u8; 2]", true, &[], false),
        p("Point", false, &[], false),
        p("Color", false, &[], false),
        p("Option<Point>", true, &[], false),
        p("Vec<Color>", true, &[], false),
        p("Box<u8>", true, &[], false),
        p("serde_json::Value", true, &[], false),
        p("PhantomData<u8>", true, &[], false),
    ]
}

const FIELD_IDENTS: &[&str] = &[
    "a", "b", "id", "kind", "name", "value", "count", "first_name", "last_name", "is_active", "my_long_field_name",
    "x_y", "tag", "type_name", "data", "items", "flag", "opt", "inner", "extra_info", "radius", "top_left", "q", "limit",
    // identifier shapes outside the "one reading" domain (digits, capital runs, no underscore): the reference
    // for these is the third-party convert_case 0.6 `Case::Camel` that deserr documents it delegates to
    "sha256sum", "userID", "md5SumHex", "x2", "a1_b2", "fooBar", "HTTPCode", "ipv4addr", "utf8string", "port2", "is2nd",
    "zeta", "eta", "theta", "iota", "kappa", "lambda", "omega", "line_len", "max_value", "Text_Value", "itemCount", "is_ok",
];
const VARIANT_IDENTS: &[&str] =
    &["Alpha", "Beta", "GammaDelta", "Unit", "Circle", "BigRedThing", "A", "Ab", "Rect", "Empty", "SomeOther", "Label", "HTTPGet", "IOError", "Vec2D", "V2"];
const RENAMES: &[&str] =
    &["renamed", "Re Named", "a.b", "日本", "x-y", "UPPER", "camelCase", "snake_case", "Kind", "NAME", "value", "k[0]", "ß"];
const TAGS: &[&str] = &["type", "kind", "tag", "t", "my tag", "kind.of", "name", "value", "shape_kind", "Kind", "TYPE", "theTag"];

#[derive(Clone, Copy, Debug, PartialEq)]
enum RA {
    Camel,
    Lower,
}

fn camel(ident: &str) -> String {
    let mut out = String::new();
    if ident.contains('_') {
        for (i, w) in ident.split('_').filter(|w| !w.is_empty()).enumerate() {
            if i == 0 {
                out.push_str(&w.to_lowercase());
            } else {
                let mut cs = w.chars();
                if let Some(c) = cs.next() {
                    out.extend(c.to_uppercase());
                    out.push_str(&cs.as_str().to_lowercase());
                }
            }
        }
    } else {
        let mut cs = ident.chars();
        if let Some(c) = cs.next() {
            out.extend(c.to_lowercase());
            out.push_str(cs.as_str());
        }
    }
    out
}

/// identifiers for which "camelCase" has exactly one reading: lowercase snake_case words, or PascalCase
/// words without digits and without runs of capitals
fn simple_ident(ident: &str) -> bool {
    if ident.chars().any(|c| c.is_ascii_digit()) {
        return false;
    }
    if ident.contains('_') {
        return ident.chars().all(|c| c.is_ascii_lowercase() || c == '_');
    }
    let cs: Vec<char> = ident.chars().collect();
    if cs.iter().all(|c| c.is_ascii_lowercase()) {
        return true;
    }
    // PascalCase: starts upper, never two capitals in a row, does not end with a capital (unless single letter)
    cs[0].is_ascii_uppercase() && !cs.windows(2).any(|w| w[0].is_ascii_uppercase() && w[1].is_ascii_uppercase()) && (cs.len() == 1 || !cs[cs.len() - 1].is_ascii_uppercase())
}

/// camelCase of an identifier: the harness' own rule inside the simple domain (cross-checked against
/// convert_case there), convert_case 0.6 outside it
fn camel_ref(ident: &str) -> String {
    use convert_case::{Case, Casing};
    let lib = ident.to_case(Case::Camel);
    if simple_ident(ident) {
        let own = camel(ident);
        if own != lib {
            eprintln!("dv_gen: camelCase reference disagreement on {ident:?}: own {own:?} vs convert_case {lib:?}");
            std::process::exit(3);
        }
        own
    } else {
        lib
    }
}

/// the documented rule: rename, else the applicable rename_all, else the identifier
fn effective(ident: &str, rename: &Option<String>, ra: Option<RA>) -> String {
    match rename {
        Some(r) => r.clone(),
        None => match ra {
            Some(RA::Camel) => camel_ref(ident),
            Some(RA::Lower) => ident.to_lowercase(),
            None => ident.to_string(),
        },
    }
}

#[derive(Clone, Debug)]
enum Conv {
    None,
    From { id: u32, by_ref: bool },
    TryFrom { id: u32, by_ref: bool },
}

#[derive(Clone, Debug)]
enum Dflt {
    None,
    Trait,
    Expr(String),
}

#[derive(Clone, Debug)]
struct Field {
    ident: String,
    rename: Option<String>,
    skip: bool,
    dflt: Dflt,
    /// pool type read from the payload
    src: PoolTy,
    conv: Conv,
    map: Option<u32>,
    missing_fn: Option<u32>,
    err1: bool,
    needs_predicate: bool,
}

impl Field {
    fn declared(&self) -> String {
        match self.conv {
            Conv::None => self.src.rust.clone(),
            _ => format!("Tagged<{}>", self.src.rust),
        }
    }
}

#[derive(Clone, Debug)]
enum Deny {
    No,
    Default,
    Custom(u32),
}

fn gen_fields(r: &mut R, pool: &[PoolTy], pinned: bool, max: usize, avoid_key: Option<&str>) -> Vec<Field> {
    let n = r.below(max + 1);
    gen_fields_n(r, pool, pinned, n, avoid_key)
}

fn gen_fields_n(r: &mut R, pool: &[PoolTy], pinned: bool, n: usize, avoid_key: Option<&str>) -> Vec<Field> {
    let mut fields: Vec<Field> = vec![];
    let mut tries = 0;
    while fields.len() < n && tries < 400 {
        tries += 1;
        // prefer identifiers that camelCase / lowercase actually change (an attribute that leaks or is
        // dropped is invisible on identifiers that are fixed points of both)
        let mut ident = r.pick(FIELD_IDENTS).to_string();
        if camel(&ident) == ident && ident.to_lowercase() == ident && r.chance(0.6) {
            ident = r.pick(FIELD_IDENTS).to_string();
        }
        if fields.iter().any(|f| f.ident == ident) {
            if n > 30 && fields.len() >= 24 {
                // the identifier pool is smaller than a very wide struct: synthetic letters-only identifiers
                let i = fields.len();
                ident = format!("wide_{}{}", (b'a' + (i / 26) as u8) as char, (b'a' + (i % 26) as u8) as char);
            } else {
                continue;
            }
        }
        let _ = avoid_key;
        let src = r.pick(pool).clone();
        let mut f = Field {
            ident,
            rename: None,
            skip: false,
            dflt: Dflt::None,
            src,
            conv: Conv::None,
            map: None,
            missing_fn: None,
            err1: false,
            needs_predicate: false,
        };
        // conversion
        let c = r.below(10);
        if c < 3 && f.src.generic {
            let by_ref = r.chance(0.4);
            f.conv = if c == 0 { Conv::From { id: r.probe(), by_ref } } else { Conv::TryFrom { id: r.probe(), by_ref } };
        }
        let has_conv = !matches!(f.conv, Conv::None);
        let declared_default_ok = f.src.default_ok; // Tagged<S>: Default iff S: Default
        // skip
        if !has_conv && r.chance(0.12) && (declared_default_ok || !f.src.exprs.is_empty()) {
            f.skip = true;
        }
        // default
        let d = r.below(10);
        if d < 2 && declared_default_ok {
            f.dflt = Dflt::Trait;
        } else if d < 4 && !f.src.exprs.is_empty() {
            let e = r.pick(&f.src.exprs).clone();
            f.dflt = Dflt::Expr(if has_conv { format!("Tagged {{ via: 5, inner: {e} }}") } else { e });
        }
        if f.skip && matches!(f.dflt, Dflt::None) && !declared_default_ok {
            f.dflt = Dflt::Expr(f.src.exprs[0].clone());
        }
        // rename
        if !f.skip && r.chance(0.25) {
            f.rename = Some(r.pick(RENAMES).to_string());
        }
        // map
        if (f.src.bump || has_conv) && r.chance(0.2) {
            f.map = Some(r.probe());
        }
        // custom missing function
        // also together with a default (the default then wins: the function is never called)
        if !f.skip && (matches!(f.dflt, Dflt::None) || r.chance(0.3)) && r.chance(0.15) {
            f.missing_fn = Some(r.probe());
        }
        if pinned && !f.skip && r.chance(0.4) {
            f.err1 = true;
        }
        // an extra where-clause on the impl; no runtime meaning
        if !pinned && r.chance(0.08) {
            f.needs_predicate = true;
        }
        fields.push(f);
    }
    fields
}

fn keys_distinct(fields: &[Field], ra: Option<RA>) -> bool {
    let mut ks: Vec<String> = fields.iter().filter(|f| !f.skip).map(|f| effective(&f.ident, &f.rename, ra)).collect();
    let n = ks.len();
    ks.sort();
    ks.dedup();
    ks.len() == n
}

fn field_attr_items(f: &Field) -> Vec<String> {
    let mut items = vec![];
    if let Some(rn) = &f.rename {
        items.push(format!("rename = {rn:?}"));
    }
    if f.skip {
        items.push("skip".to_string());
    }
    match &f.dflt {
        Dflt::None => {}
        Dflt::Trait => items.push("default".into()),
        Dflt::Expr(e) => items.push(format!("default = {e}")),
    }
    let s = &f.src.rust;
    match &f.conv {
        Conv::None => {}
        Conv::From { id, by_ref: false } => items.push(format!("from({s}) = from_p::<{id}, {s}>")),
        Conv::From { id, by_ref: true } => items.push(format!("from(&{s}) = from_ref_p::<{id}, {s}>")),
        Conv::TryFrom { id, by_ref: false } => items.push(format!("try_from({s}) = try_p::<{id}, {s}> -> ProbeErr")),
        Conv::TryFrom { id, by_ref: true } => items.push(format!("try_from(&{s}) = try_ref_p::<{id}, {s}> -> ProbeErr")),
    }
    if let Some(id) = f.map {
        items.push(format!("map = map_p::<{id}, {}>", f.declared()));
    }
    if let Some(id) = f.missing_fn {
        items.push(format!("missing_field_error = missing_p::<{id}>"));
    }
    if f.err1 {
        items.push("error = Rec<1>".into());
    }
    if f.needs_predicate {
        items.push("needs_predicate".into());
    }
    items
}

/// print attribute items in random order, randomly split over several #[deserr(..)]
fn attrs(r: &mut R, mut items: Vec<String>, indent: &str) -> String {
    let mut out = String::new();
    // shuffle
    for i in (1..items.len()).rev() {
        let j = r.below(i + 1);
        items.swap(i, j);
    }
    let mut cur: Vec<String> = vec![];
    for it in items {
        cur.push(it);
        if r.chance(0.3) {
            let trailing = if r.chance(0.2) { "," } else { "" };
            let _ = writeln!(out, "{indent}#[deserr({}{trailing})]", cur.join(", "));
            cur.clear();
        }
    }
    if !cur.is_empty() {
        let _ = writeln!(out, "{indent}#[deserr({})]", cur.join(", "));
    }
    out
}

fn field_ty_desc(f: &Field, key: &str) -> String {
    let default = if f.skip || !matches!(f.dflt, Dflt::None) {
        let e = match &f.dflt {
            Dflt::Expr(e) => e.clone(),
            _ => "Default::default()".to_string(),
        };
        format!("Some({{ let d: {} = {e}; d.to_model() }})", f.declared())
    } else {
        "None".to_string()
    };
    let conv = match &f.conv {
        Conv::None => "Conv::None".to_string(),
        Conv::From { id, .. } => format!("Conv::From({id})"),
        Conv::TryFrom { id, .. } => format!("Conv::TryFrom({id})"),
    };
    format!(
        "FieldTy {{ ident: {:?}.into(), key: {:?}.into(), skip: {}, default: {default}, src: <{} as Described>::ty(), conv: {conv}, map: {:?}, missing_fn: {:?}, err_tag: {} }}",
        f.ident,
        key,
        f.skip,
        f.src.rust,
        f.map,
        f.missing_fn,
        if f.err1 { 1 } else { 0 }
    )
}

fn deny_desc(d: &Deny) -> String {
    match d {
        Deny::No => "Deny::No".into(),
        Deny::Default => "Deny::Default".into(),
        Deny::Custom(id) => format!("Deny::Custom({id})"),
    }
}

fn print_fields(r: &mut R, fields: &[Field], indent: &str, vis: &str) -> String {
    let mut s = String::new();
    for f in fields {
        s.push_str(&attrs(r, field_attr_items(f), indent));
        let _ = writeln!(s, "{indent}{vis}{}: {},", f.ident, f.declared());
    }
    s
}

fn ra_item(ra: Option<RA>) -> Option<String> {
    ra.map(|x| format!("rename_all = {}", if x == RA::Camel { "camelCase" } else { "lowercase" }))
}

fn gen_ra(r: &mut R) -> Option<RA> {
    match r.below(5) {
        0 | 1 => Some(RA::Camel),
        2 => Some(RA::Lower),
        _ => None,
    }
}

const WHERE: &str = "where_predicate = __Deserr_E: deserr::MergeWithError<ProbeErr>";

struct Out {
    code: String,
    entries: Vec<String>,
}

fn emit_src_const(out: &mut Out, name: &str, src: &str) {
    let _ = writeln!(out.code, "pub const SRC_{}: &str = r####\"{}\"####;", name.to_uppercase(), src.trim_end());
    out.code.push_str(src);
}

fn gen_struct(r: &mut R, out: &mut Out, name: &str, pool: &[PoolTy], pinned: bool, wide: usize) {
    let (ra, fields) = loop {
        let ra = gen_ra(r);
        // a wide struct (> 20 fields) exercises everything that depends on the number of fields
        let fields = if wide > 0 {
            // 21..28 and 65..72 fields: past the sizes of a u16/u32/u64 bookkeeping word
            let n = wide + r.below(8);
            gen_fields_n(r, pool, pinned, n, None)
        } else {
            gen_fields(r, pool, pinned, 6, None)
        };
        if keys_distinct(&fields, ra) {
            break (ra, fields);
        }
    };
    let deny = match r.below(6) {
        0 | 1 => Deny::Default,
        2 => Deny::Custom(r.probe()),
        _ => Deny::No,
    };
    let validate = if r.chance(0.25) { Some(r.probe()) } else { None };
    let mut items: Vec<String> = vec![];
    if let Some(x) = ra_item(ra) {
        items.push(x);
    }
    match &deny {
        Deny::No => {}
        Deny::Default => items.push("deny_unknown_fields".into()),
        Deny::Custom(id) => items.push(format!("deny_unknown_fields = unknown_p::<{id}>")),
    }
    if let Some(id) = validate {
        items.push(format!("validate = validate_p::<{id}, Self> -> ProbeErr"));
    }
    if pinned {
        items.push("error = Rec<0>".into());
    } else {
        items.push(WHERE.into());
    }
    let mut src = String::new();
    src.push_str("#[derive(Deserr, Debug, Clone)]\n");
    src.push_str(&attrs(r, items, ""));
    let _ = writeln!(src, "pub struct {name} {{");
    src.push_str(&print_fields(r, &fields, "    ", "pub "));
    src.push_str("}\n");
    emit_src_const(out, name, &src);
    // ToModel
    let _ = writeln!(
        out.code,
        "impl ToModel for {name} {{ fn to_model(&self) -> M {{ M::Struct {{ name: {name:?}.into(), fields: vec![{}] }} }} }}",
        fields.iter().map(|f| format!("({:?}.into(), self.{}.to_model())", f.ident, f.ident)).collect::<Vec<_>>().join(", ")
    );
    // Described
    let _ = writeln!(
        out.code,
        "impl Described for {name} {{ fn ty() -> Ty {{ Ty::Struct(Arc::new(StructTy {{ name: {name:?}.into(), fields: vec![{}], deny: {}, validate: {:?} }})) }} }}",
        fields.iter().map(|f| field_ty_desc(f, &effective(&f.ident, &f.rename, ra))).collect::<Vec<_>>().join(", "),
        deny_desc(&deny),
        validate
    );
    let ctor = if pinned { "rec_only" } else { "generic" };
    out.entries.push(format!("Entry::{ctor}::<{name}>({name:?}, SRC_{}, \"gen\")", name.to_uppercase()));
    if r.chance(0.5) {
        let w = *r.pick(&["Vec<{}>", "Option<{}>", "BTreeMap<String, {}>", "(u8, {})", "[{}; 2]", "Box<{}>"]);
        let t = w.replace("{}", name);
        out.entries.push(format!("Entry::{ctor}::<{t}>({t:?}, SRC_{}, \"gen\")", name.to_uppercase()));
    }
}

fn gen_enum(r: &mut R, out: &mut Out, name: &str, pool: &[PoolTy]) {
    let tag = r.pick(TAGS).to_string();
    let ra = gen_ra(r);
    let nvar = 1 + r.below(4);
    struct Var {
        ident: String,
        rename: Option<String>,
        ra: Option<RA>,
        fields: Option<Vec<Field>>,
    }
    let mut vars: Vec<Var> = vec![];
    let all_unit = r.chance(0.15);
    let mut tries = 0;
    while vars.len() < nvar && tries < 100 {
        tries += 1;
        let ident = r.pick(VARIANT_IDENTS).to_string();
        if vars.iter().any(|v| v.ident == ident) {
            continue;
        }
        let rename = if r.chance(0.25) { Some(r.pick(RENAMES).to_string()) } else { None };
        let key = effective(&ident, &rename, ra);
        if vars.iter().any(|v| effective(&v.ident, &v.rename, ra) == key) {
            continue;
        }
        let unit = all_unit || r.chance(0.25);
        let (vra, fields) = if unit {
            (None, None)
        } else {
            loop {
                let vra = gen_ra(r);
                let fields = gen_fields(r, pool, false, 4, Some(&tag));
                if keys_distinct(&fields, vra) {
                    break (vra, Some(fields));
                }
            }
        };
        vars.push(Var { ident, rename, ra: vra, fields });
    }
    let deny = match r.below(6) {
        0 | 1 => Deny::Default,
        2 => Deny::Custom(r.probe()),
        _ => Deny::No,
    };
    let validate = if r.chance(0.2) { Some(r.probe()) } else { None };
    let mut items: Vec<String> = vec![format!("tag = {tag:?}")];
    if let Some(x) = ra_item(ra) {
        items.push(x);
    }
    match &deny {
        Deny::No => {}
        Deny::Default => items.push("deny_unknown_fields".into()),
        Deny::Custom(id) => items.push(format!("deny_unknown_fields = unknown_p::<{id}>")),
    }
    if let Some(id) = validate {
        items.push(format!("validate = validate_p::<{id}, Self> -> ProbeErr"));
    }
    items.push(WHERE.into());
    let mut src = String::new();
    src.push_str("#[derive(Deserr, Debug, Clone)]\n");
    src.push_str(&attrs(r, items, ""));
    let _ = writeln!(src, "pub enum {name} {{");
    for v in &vars {
        let mut vi: Vec<String> = vec![];
        if let Some(rn) = &v.rename {
            vi.push(format!("rename = {rn:?}"));
        }
        if let Some(x) = ra_item(v.ra) {
            vi.push(x);
        }
        src.push_str(&attrs(r, vi, "    "));
        match &v.fields {
            None => {
                let _ = writeln!(src, "    {},", v.ident);
            }
            Some(fs) => {
                let _ = writeln!(src, "    {} {{", v.ident);
                src.push_str(&print_fields(r, fs, "        ", ""));
                src.push_str("    },\n");
            }
        }
    }
    src.push_str("}\n");
    emit_src_const(out, name, &src);
    // ToModel
    let mut arms = String::new();
    for v in &vars {
        match &v.fields {
            None => {
                let _ = write!(arms, "{name}::{} => ({:?}, vec![]), ", v.ident, v.ident);
            }
            Some(fs) => {
                let _ = write!(
                    arms,
                    "{name}::{} {{ {} }} => ({:?}, vec![{}]), ",
                    v.ident,
                    fs.iter().map(|f| f.ident.clone()).collect::<Vec<_>>().join(", "),
                    v.ident,
                    fs.iter().map(|f| format!("({:?}.into(), {}.to_model())", f.ident, f.ident)).collect::<Vec<_>>().join(", ")
                );
            }
        }
    }
    let _ = writeln!(
        out.code,
        "impl ToModel for {name} {{ fn to_model(&self) -> M {{ let (v, f): (&str, Vec<(String, M)>) = match self {{ {arms} }}; M::Variant {{ name: {name:?}.into(), variant: v.into(), fields: f }} }} }}"
    );
    let vdesc: Vec<String> = vars
        .iter()
        .map(|v| {
            format!(
                "VariantTy {{ ident: {:?}.into(), key: {:?}.into(), fields: {} }}",
                v.ident,
                effective(&v.ident, &v.rename, ra),
                match &v.fields {
                    None => "None".to_string(),
                    // the fields of a variant are renamed by the variant's own rename_all only
                    Some(fs) => format!(
                        "Some(vec![{}])",
                        fs.iter().map(|f| field_ty_desc(f, &effective(&f.ident, &f.rename, v.ra))).collect::<Vec<_>>().join(", ")
                    ),
                }
            )
        })
        .collect();
    let _ = writeln!(
        out.code,
        "impl Described for {name} {{ fn ty() -> Ty {{ Ty::TaggedEnum(Arc::new(EnumTy {{ name: {name:?}.into(), tag: {tag:?}.into(), variants: vec![{}], deny: {}, validate: {:?} }})) }} }}",
        vdesc.join(", "),
        deny_desc(&deny),
        validate
    );
    out.entries.push(format!("Entry::generic::<{name}>({name:?}, SRC_{}, \"gen\")", name.to_uppercase()));
    if r.chance(0.4) {
        let w = *r.pick(&["Vec<{}>", "Option<{}>", "BTreeMap<String, {}>"]);
        let t = w.replace("{}", name);
        out.entries.push(format!("Entry::generic::<{t}>({t:?}, SRC_{}, \"gen\")", name.to_uppercase()));
    }
}

fn gen_unit_enum(r: &mut R, out: &mut Out, name: &str) {
    let ra = gen_ra(r);
    let nvar = 1 + r.below(5);
    let mut vars: Vec<(String, Option<String>)> = vec![];
    let mut tries = 0;
    while vars.len() < nvar && tries < 100 {
        tries += 1;
        let ident = r.pick(VARIANT_IDENTS).to_string();
        if vars.iter().any(|v| v.0 == ident) {
            continue;
        }
        let rename = if r.chance(0.3) { Some(r.pick(RENAMES).to_string()) } else { None };
        let key = effective(&ident, &rename, ra);
        if vars.iter().any(|v| effective(&v.0, &v.1, ra) == key) {
            continue;
        }
        vars.push((ident, rename));
    }
    let validate = if r.chance(0.15) { Some(r.probe()) } else { None };
    let mut items: Vec<String> = vec![];
    if let Some(x) = ra_item(ra) {
        items.push(x);
    }
    if let Some(id) = validate {
        items.push(format!("validate = validate_p::<{id}, Self> -> ProbeErr"));
    }
    items.push(WHERE.into());
    let mut src = String::new();
    src.push_str("#[derive(Deserr, Debug, Clone)]\n");
    src.push_str(&attrs(r, items, ""));
    let _ = writeln!(src, "pub enum {name} {{");
    for (ident, rename) in &vars {
        if let Some(rn) = rename {
            let _ = writeln!(src, "    #[deserr(rename = {rn:?})]");
        }
        let _ = writeln!(src, "    {ident},");
    }
    src.push_str("}\n");
    emit_src_const(out, name, &src);
    let arms: String = vars.iter().map(|(i, _)| format!("{name}::{i} => {i:?}, ")).collect();
    let _ = writeln!(
        out.code,
        "impl ToModel for {name} {{ fn to_model(&self) -> M {{ let v: &str = match self {{ {arms} }}; M::Variant {{ name: {name:?}.into(), variant: v.into(), fields: vec![] }} }} }}"
    );
    let _ = writeln!(
        out.code,
        "impl Described for {name} {{ fn ty() -> Ty {{ Ty::UnitEnum(Arc::new(UnitEnumTy {{ name: {name:?}.into(), variants: vec![{}], validate: {:?} }})) }} }}",
        vars.iter().map(|(i, rn)| format!("({i:?}.into(), {:?}.into())", effective(i, rn, ra))).collect::<Vec<_>>().join(", "),
        validate
    );
    out.entries.push(format!("Entry::generic::<{name}>({name:?}, SRC_{}, \"gen\")", name.to_uppercase()));
    if r.chance(0.4) {
        let w = *r.pick(&["Vec<{}>", "Option<{}>", "BTreeMap<String, {}>", "({}, u8)"]);
        let t = w.replace("{}", name);
        out.entries.push(format!("Entry::generic::<{t}>({t:?}, SRC_{}, \"gen\")", name.to_uppercase()));
    }
}

fn gen_via(r: &mut R, out: &mut Out, name: &str, pool: &[PoolTy]) {
    let inner = loop {
        let t = r.pick(pool).clone();
        if t.generic {
            break t;
        }
    };
    let s = &inner.rust;
    let try_ = r.chance(0.6);
    let by_ref = r.chance(0.4);
    let id = r.probe();
    let validate = if r.chance(0.3) { Some(r.probe()) } else { None };
    let fname = format!("conv_{}", name.to_lowercase());
    let amp = if by_ref { "&" } else { "" };
    let mut items: Vec<String> = vec![];
    if try_ {
        items.push(format!("try_from({amp}{s}) = {fname} -> ProbeErr"));
    } else {
        items.push(format!("from({amp}{s}) = {fname}"));
    }
    if let Some(v) = validate {
        items.push(format!("validate = validate_p::<{v}, Self> -> ProbeErr"));
    }
    items.push(WHERE.into());
    let mut src = String::new();
    // the conversion function is part of the program text
    let call = match (try_, by_ref) {
        (false, false) => format!("pub fn {fname}(s: {s}) -> {name} {{ {name}(from_p::<{id}, {s}>(s)) }}"),
        (false, true) => format!("pub fn {fname}(s: &{s}) -> {name} {{ {name}(from_ref_p::<{id}, {s}>(s)) }}"),
        (true, false) => format!("pub fn {fname}(s: {s}) -> Result<{name}, ProbeErr> {{ try_p::<{id}, {s}>(s).map({name}) }}"),
        (true, true) => format!("pub fn {fname}(s: &{s}) -> Result<{name}, ProbeErr> {{ try_ref_p::<{id}, {s}>(s).map({name}) }}"),
    };
    let _ = writeln!(src, "{call}");
    src.push_str("#[derive(Deserr, Debug, Clone)]\n");
    src.push_str(&attrs(r, items, ""));
    let _ = writeln!(src, "pub struct {name}(pub Tagged<{s}>);");
    emit_src_const(out, name, &src);
    let _ = writeln!(out.code, "impl ToModel for {name} {{ fn to_model(&self) -> M {{ self.0.to_model() }} }}");
    let _ = writeln!(
        out.code,
        "impl Described for {name} {{ fn ty() -> Ty {{ Ty::Via(Arc::new(ViaTy {{ name: {name:?}.into(), inner: <{s} as Described>::ty(), conv: {}, validate: {:?} }})) }} }}",
        if try_ { format!("Conv::TryFrom({id})") } else { format!("Conv::From({id})") },
        validate
    );
    out.entries.push(format!("Entry::generic::<{name}>({name:?}, SRC_{}, \"gen\")", name.to_uppercase()));
    if r.chance(0.5) {
        let w = *r.pick(&["Vec<{}>", "Option<{}>", "BTreeMap<String, {}>"]);
        let t = w.replace("{}", name);
        out.entries.push(format!("Entry::generic::<{t}>({t:?}, SRC_{}, \"gen\")", name.to_uppercase()));
    }
}

fn main() {
    let args: Vec<String> = std::env::args().collect();
    let seed: u64 = args.get(1).and_then(|s| s.parse().ok()).unwrap_or(1);
    let outp = args.get(2).cloned().unwrap_or_else(|| "types.rs".into());
    let count: usize = args.get(3).and_then(|s| s.parse().ok()).unwrap_or(56);
    let mut sb = [0u8; 32];
    let mut x = seed ^ 0x6465_7365_7272_6776;
    for c in sb.chunks_mut(8) {
        x = x.wrapping_add(0x9E3779B97F4A7C15);
        let mut z = x;
        z = (z ^ (z >> 30)).wrapping_mul(0xBF58476D1CE4E5B9);
        z = (z ^ (z >> 27)).wrapping_mul(0x94D049BB133111EB);
        z ^= z >> 31;
        c.copy_from_slice(&z.to_le_bytes());
    }
    let mut r = R { rng: TestRng::from_seed(RngAlgorithm::ChaCha, &sb), next_probe: 100 };
    let mut out = Out { code: String::new(), entries: vec![] };
    let _ = writeln!(out.code, "// generated by dv_gen, seed {seed} — do not edit");
    out.code.push_str(
        "use deserr::Deserr;\nuse dv_core::catalogue::{Color, Point};\nuse dv_core::entry::Entry;\nuse dv_core::model::{ToModel, M};\n\
         use dv_core::probe::{from_p, from_ref_p, map_p, missing_p, try_p, try_ref_p, unknown_p, validate_p, Tagged};\n\
         use dv_core::rec::{ProbeErr, Rec};\nuse dv_core::ty::*;\nuse std::collections::BTreeMap;\nuse std::marker::PhantomData;\n\
         use std::num::NonZeroU8;\nuse std::sync::Arc;\n\n",
    );
    let _ = writeln!(out.code, "pub const PROGRAM_SEED: u64 = {seed};\n");
    let mut pool = base_pool();
    let mut levels: Vec<(String, usize)> = vec![];
    for k in 0..count {
        let name = format!("G{k}");
        let usable: Vec<PoolTy> = pool.clone();
        let before = out.code.len();
        let kind = if k == 5 || k == 6 { r.below(9) } else { r.below(20) };
        let (generic, level) = match kind {
            0..=8 => {
                // exactly two wide structs per program set: more than 20 and more than 64 fields
                gen_struct(&mut r, &mut out, &name, &usable, false, if k == 5 { 21 } else if k == 6 { 65 } else { 0 });
                (true, 1)
            }
            9..=13 => {
                gen_enum(&mut r, &mut out, &name, &usable);
                (true, 1)
            }
            14 | 15 => {
                gen_unit_enum(&mut r, &mut out, &name);
                (true, 0)
            }
            16 | 17 => {
                gen_via(&mut r, &mut out, &name, &usable);
                (true, 1)
            }
            _ => {
                gen_struct(&mut r, &mut out, &name, &usable, true, 0);
                (false, 1)
            }
        };
        out.code.push('\n');
        // nesting level: 1 + the deepest generated type mentioned in the new text
        let new_text = &out.code[before..];
        let mut deepest = 0usize;
        for (other, lvl) in &levels {
            let pat = other.as_str();
            let mut from = 0;
            while let Some(i) = new_text[from..].find(pat) {
                let end = from + i + pat.len();
                let next_is_digit = new_text[end..].chars().next().map(|c| c.is_ascii_digit()).unwrap_or(false);
                let prev_ok = new_text[..from + i].chars().last().map(|c| !c.is_ascii_alphanumeric() && c != '_').unwrap_or(true);
                if !next_is_digit && prev_ok {
                    deepest = deepest.max(*lvl);
                }
                from = end;
            }
        }
        let _ = level;
        let my_level = deepest + 1;
        levels.push((name.clone(), my_level));
        if generic && my_level <= 1 {
            // make the new type available as a field type of later ones
            for w in ["{}", "Option<{}>", "Vec<{}>", "BTreeMap<String, {}>"] {
                pool.push(PoolTy {
                    rust: w.replace("{}", &name),
                    default_ok: w != "{}",
                    exprs: vec![],
                    bump: false,
                    level: my_level,
                    generic: true,
                });
            }
        }
    }
    let _ = writeln!(out.code, "pub fn entries() -> Vec<Entry> {{\n    vec![\n        {},\n    ]\n}}", out.entries.join(",\n        "));
    let old = std::fs::read_to_string(&outp).unwrap_or_default();
    if old != out.code {
        std::fs::write(&outp, &out.code).expect("cannot write output");
    }
}
