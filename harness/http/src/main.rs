fn main(){}
