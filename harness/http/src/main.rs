//! C20 — the actix-web and axum extractors add nothing and lose nothing.
//!
//! Differential: extractor output == the framework's own extractor on an identical request
//! composed with `deserr::deserialize`.

use actix_web::FromRequest as _;
use axum::extract::FromRequest as _;
use axum::response::IntoResponse;
use deserr::actix_web::{AwebJson, AwebQueryParameter};
use deserr::axum::AxumJson;
use deserr::errors::JsonError;
use deserr::Deserr;
use dv_core::catalogue::{Camel, Point, Shape, Strict};
use dv_core::evidence::{open_known, Report, Tier};
use dv_core::genp::{Gen, GenCfg};
use dv_core::model::{ToModel, M};
use dv_core::pv::PV;
use dv_core::runner::{run_cases, Case, GenFn, Stats, Verdict};
use dv_core::trace::Script;
use dv_core::ty::{Described, Ty};
use rand::Rng;
use serde_json::{json, Value as J};
use std::sync::Arc;

#[derive(Deserr, Debug)]
#[deserr(deny_unknown_fields, rename_all = camelCase)]
pub struct QSearch {
    pub q: String,
    #[deserr(default)]
    pub page_size: Option<String>,
    #[deserr(default)]
    pub sort_by: Option<String>,
}
impl ToModel for QSearch {
    fn to_model(&self) -> M {
        M::Struct {
            name: "QSearch".into(),
            fields: vec![("q".into(), self.q.to_model()), ("page_size".into(), self.page_size.to_model()), ("sort_by".into(), self.sort_by.to_model())],
        }
    }
}

/// a second error type whose HTTP rendering is NOT "400 + Display text": 422 with a JSON body.
/// An extractor that rebuilds the rejection from the error's text instead of carrying the error
/// itself shows up as a different status / body.
#[derive(Debug, Clone, PartialEq)]
pub struct Tea(pub String);
impl std::fmt::Display for Tea {
    fn fmt(&self, f: &mut std::fmt::Formatter<'_>) -> std::fmt::Result {
        write!(f, "tea: {}", self.0)
    }
}
impl deserr::DeserializeError for Tea {
    fn error<V: deserr::IntoValue>(_self_: Option<Self>, error: deserr::ErrorKind<V>, location: deserr::ValuePointerRef) -> std::ops::ControlFlow<Self, Self> {
        let j = deserr::take_cf_content(<JsonError as deserr::DeserializeError>::error::<V>(None, error, location));
        std::ops::ControlFlow::Break(Tea(j.to_string()))
    }
}
impl deserr::MergeWithError<Tea> for Tea {
    fn merge(_self_: Option<Self>, other: Tea, _l: deserr::ValuePointerRef) -> std::ops::ControlFlow<Self, Self> {
        std::ops::ControlFlow::Break(other)
    }
}
impl Tea {
    fn body(&self) -> String {
        json!({"code": "unprocessable", "message": self.0}).to_string()
    }
}
impl actix_web::ResponseError for Tea {
    fn status_code(&self) -> actix_web::http::StatusCode {
        actix_web::http::StatusCode::UNPROCESSABLE_ENTITY
    }
    fn error_response(&self) -> actix_web::HttpResponse<actix_web::body::BoxBody> {
        actix_web::HttpResponseBuilder::new(self.status_code()).content_type("application/json").body(self.body())
    }
}
impl IntoResponse for Tea {
    fn into_response(self) -> axum::response::Response {
        (http::StatusCode::UNPROCESSABLE_ENTITY, [("content-type", "application/json")], self.body()).into_response()
    }
}

#[derive(Debug, Clone, PartialEq)]
enum Obs {
    /// extraction succeeded with this value
    Ok(M),
    /// rejected: status, content-type, body
    Rejected(u16, Option<String>, Vec<u8>),
}

fn show(o: &Obs) -> String {
    match o {
        Obs::Ok(m) => format!("Ok({})", m.show()),
        Obs::Rejected(s, ct, b) => format!("Rejected(status {s}, content-type {ct:?}, body {:?})", String::from_utf8_lossy(b)),
    }
}

#[derive(Debug, Clone, PartialEq)]
enum Class {
    WellTyped,
    DeserrFailure,
    FrameworkRejection,
}

struct Req {
    body: Vec<u8>,
    ctype: Option<String>,
    /// actix app configuration for the JSON extractor: 0 none, 1 small limit, 2 content type not required,
    /// 3 extra content-type predicate (text/plain accepted)
    cfg: u8,
    /// a Content-Length header that declares more than is sent
    declared_len: Option<usize>,
}

fn actix_req(r: &Req) -> (actix_web::HttpRequest, actix_web::dev::Payload) {
    let mut t = actix_web::test::TestRequest::post().uri("/x");
    if let Some(ct) = &r.ctype {
        t = t.insert_header(("content-type", ct.as_str()));
    }
    if let Some(n) = r.declared_len {
        t = t.insert_header(("content-length", n.to_string()));
    }
    match r.cfg {
        1 => t = t.app_data(actix_web::web::JsonConfig::default().limit(24)),
        2 => t = t.app_data(actix_web::web::JsonConfig::default().content_type_required(false)),
        3 => t = t.app_data(actix_web::web::JsonConfig::default().content_type(|m| m.type_() == "text" && m.subtype() == "plain")),
        _ => {}
    }
    t.set_payload(r.body.clone()).to_http_parts()
}

async fn actix_resp(e: actix_web::Error) -> Obs {
    let resp = e.error_response();
    let status = resp.status().as_u16();
    let ct = resp.headers().get("content-type").and_then(|v| v.to_str().ok()).map(|s| s.to_string());
    let body = actix_web::body::to_bytes(resp.into_body()).await.map(|b| b.to_vec()).unwrap_or_default();
    Obs::Rejected(status, ct, body)
}

/// the same differential with the custom error type `Tea`
async fn actix_json_tea<T: Deserr<Tea> + ToModel + 'static>(r: &Req) -> (Obs, Obs, Class) {
    let (req, mut pl) = actix_req(r);
    let got = match AwebJson::<T, Tea>::from_request(&req, &mut pl).await {
        Ok(v) => Obs::Ok(v.into_inner().to_model()),
        Err(e) => {
            let carried = e.as_error::<Tea>().cloned();
            match actix_resp(e).await {
                Obs::Rejected(s, c, b) if s == 422 && carried.is_none() => Obs::Rejected(s, c, [b, b" <but the actix error does not carry the deserr error>".to_vec()].concat()),
                o => o,
            }
        }
    };
    let (req, mut pl) = actix_req(r);
    let (want, class) = match actix_web::web::Json::<J>::from_request(&req, &mut pl).await {
        Err(e) => (actix_resp(e).await, Class::FrameworkRejection),
        Ok(doc) => match deserr::deserialize::<T, _, Tea>(doc.into_inner()) {
            Ok(v) => (Obs::Ok(v.to_model()), Class::WellTyped),
            Err(e) => (Obs::Rejected(422, Some("application/json".into()), e.body().into_bytes()), Class::DeserrFailure),
        },
    };
    (got, want, class)
}

async fn axum_json_tea<T: Deserr<Tea> + ToModel + 'static>(r: &Req) -> (Obs, Obs, Class) {
    let got = match AxumJson::<T, Tea>::from_request(axum_req(r), &()).await {
        Ok(v) => Obs::Ok(v.into_inner().to_model()),
        Err(rej) => axum_resp(rej.into_response()).await,
    };
    let (want, class) = match axum::Json::<J>::from_request(axum_req(r), &()).await {
        Err(rej) => (axum_resp(rej.into_response()).await, Class::FrameworkRejection),
        Ok(axum::Json(doc)) => match deserr::deserialize::<T, _, Tea>(doc) {
            Ok(v) => (Obs::Ok(v.to_model()), Class::WellTyped),
            Err(e) => (Obs::Rejected(422, Some("application/json".into()), e.body().into_bytes()), Class::DeserrFailure),
        },
    };
    (got, want, class)
}

async fn actix_json<T: Deserr<JsonError> + ToModel + 'static>(r: &Req) -> (Obs, Obs, Class) {
    // the extractor under test
    let (req, mut pl) = actix_req(r);
    let mut carried: Option<String> = None;
    let got = match AwebJson::<T, JsonError>::from_request(&req, &mut pl).await {
        Ok(v) => Obs::Ok(v.into_inner().to_model()),
        Err(e) => {
            carried = e.as_error::<JsonError>().map(|j| j.to_string());
            actix_resp(e).await
        }
    };
    // the reference: the framework's own extractor on an identical request, then deserr
    let (req, mut pl) = actix_req(r);
    let (want, class) = match actix_web::web::Json::<J>::from_request(&req, &mut pl).await {
        Err(e) => (actix_resp(e).await, Class::FrameworkRejection),
        Ok(doc) => match deserr::deserialize::<T, _, JsonError>(doc.into_inner()) {
            Ok(v) => (Obs::Ok(v.to_model()), Class::WellTyped),
            Err(e) => {
                // "the rejection carries exactly the deserr error": it renders as the error itself renders,
                // which for JsonError is status 400 with the message as body
                let msg = e.to_string();
                let own = actix_resp(actix_web::Error::from(e)).await;
                let own = match own {
                    Obs::Rejected(400, ct, b) if b == msg.as_bytes() => Obs::Rejected(400, ct.map(|c| format!("={c}")), b),
                    other => Obs::Rejected(400, None, format!("<JsonError itself does not render as 400 + message: {}>", show(&other)).into_bytes()),
                };
                (own, Class::DeserrFailure)
            }
        },
    };
    // the actix error must BE the deserr error (downcast), not a rebuilt look-alike
    let got = match (&class, &got, &want) {
        (Class::DeserrFailure, Obs::Rejected(s, c, b), Obs::Rejected(_, _, wb)) if carried.as_deref().map(|m| m.as_bytes()) != Some(wb.as_slice()) => {
            Obs::Rejected(*s, c.clone(), [b.clone(), b" <the actix error does not carry the JsonError itself>".to_vec()].concat())
        }
        _ => got,
    };
    (got, want, class)
}

fn axum_req(r: &Req) -> axum::extract::Request {
    let mut b = http::Request::builder().method("POST").uri("/x");
    if let Some(ct) = &r.ctype {
        b = b.header("content-type", ct.as_str());
    }
    b.body(axum::body::Body::from(r.body.clone())).unwrap()
}

async fn axum_resp(resp: axum::response::Response) -> Obs {
    let status = resp.status().as_u16();
    let ct = resp.headers().get("content-type").and_then(|v| v.to_str().ok()).map(|s| s.to_string());
    let body = axum::body::to_bytes(resp.into_body(), usize::MAX).await.map(|b| b.to_vec()).unwrap_or_default();
    Obs::Rejected(status, ct, body)
}

async fn axum_json<T: Deserr<JsonError> + ToModel + 'static>(r: &Req) -> (Obs, Obs, Class) {
    let got = match AxumJson::<T, JsonError>::from_request(axum_req(r), &()).await {
        Ok(v) => Obs::Ok(v.into_inner().to_model()),
        Err(rej) => axum_resp(rej.into_response()).await,
    };
    let (want, class) = match axum::Json::<J>::from_request(axum_req(r), &()).await {
        Err(rej) => (axum_resp(rej.into_response()).await, Class::FrameworkRejection),
        Ok(axum::Json(doc)) => match deserr::deserialize::<T, _, JsonError>(doc) {
            Ok(v) => (Obs::Ok(v.to_model()), Class::WellTyped),
            // what the error itself renders; for JsonError that is status 400 with the message as body
            Err(e) => {
                let msg = e.to_string();
                let own = axum_resp(e.into_response()).await;
                let own = match own {
                    Obs::Rejected(400, ct, b) if b == msg.as_bytes() => Obs::Rejected(400, ct.map(|c| format!("={c}")), b),
                    other => Obs::Rejected(400, None, format!("<JsonError itself does not render as 400 + message: {}>", show(&other)).into_bytes()),
                };
                (own, Class::DeserrFailure)
            }
        },
    };
    (got, want, class)
}

async fn actix_query<T: Deserr<JsonError> + ToModel + 'static>(qs: &str) -> (Obs, Obs, Class) {
    let uri = format!("/x?{qs}");
    let mk = || actix_web::test::TestRequest::get().uri(&uri).to_http_parts();
    let (req, mut pl) = mk();
    // what the request really carries (the URI may have been normalised)
    let carried = req.query_string().to_string();
    let got = match AwebQueryParameter::<T, JsonError>::from_request(&req, &mut pl).await {
        Ok(v) => Obs::Ok(v.into_inner().to_model()),
        Err(e) => actix_resp(e).await,
    };
    let (want, class) = match actix_web::web::Query::<J>::from_query(&carried) {
        Err(e) => (actix_resp(e.into()).await, Class::FrameworkRejection),
        Ok(doc) => match deserr::deserialize::<T, _, JsonError>(doc.into_inner()) {
            Ok(v) => (Obs::Ok(v.to_model()), Class::WellTyped),
            Err(e) => (actix_resp(actix_web::Error::from(e)).await, Class::DeserrFailure),
        },
    };
    // from_query directly, too
    let direct = match AwebQueryParameter::<T, JsonError>::from_query(&carried) {
        Ok(v) => Obs::Ok(v.into_inner().to_model()),
        Err(e) => actix_resp(e).await,
    };
    if direct != got {
        return (direct, got, class);
    }
    (got, want, class)
}

const TARGETS: &[&str] = &["Point", "Strict", "Camel", "Shape", "Vec<Point>"];

fn target_ty(i: usize) -> Ty {
    match i {
        0 => Point::ty(),
        1 => Strict::ty(),
        2 => Camel::ty(),
        3 => Shape::ty(),
        _ => <Vec<Point>>::ty(),
    }
}

fn same(got: &Obs, want: &Obs) -> bool {
    match (got, want) {
        (Obs::Ok(a), Obs::Ok(b)) => a == b,
        (Obs::Rejected(s1, c1, b1), Obs::Rejected(s2, c2, b2)) => {
            // content type is compared only where the reference names one
            let ct_ok = match c2.as_deref() {
                None => true,
                Some(want) => match want.strip_prefix('=') {
                    Some(exact) => c1.as_deref() == Some(exact),
                    None => c1.as_deref().map(|c| c.starts_with(want)).unwrap_or(false),
                },
            };
            s1 == s2 && b1 == b2 && ct_ok
        }
        _ => false,
    }
}

fn decode(case: &Case) -> Option<(String, Req)> {
    let PV::Map(m) = &case.payload else { return None };
    let get = |k: &str| m.iter().find(|(kk, _)| kk == k).map(|x| &x.1);
    let kind = match get("kind")? {
        PV::Str(s) => s.clone(),
        _ => return None,
    };
    let ctype = match get("ctype") {
        Some(PV::Str(s)) => Some(s.clone()),
        _ => None,
    };
    let mut body: Vec<u8> = match get("body")? {
        PV::Seq(s) => s.iter().filter_map(|b| if let PV::Int(i) = b { Some(*i as u8) } else { None }).collect(),
        _ => return None,
    };
    if let Some(PV::Int(n)) = get("big") {
        let n = (*n as usize).min(3 * 1024 * 1024);
        body = Vec::with_capacity(n + 2);
        body.push(b'"');
        body.resize(n + 1, b'a');
        body.push(b'"');
    }
    let cfg = match get("cfg") {
        Some(PV::Int(i)) => *i as u8,
        _ => 0,
    };
    let declared_len = match get("declared_len") {
        Some(PV::Int(i)) => Some(*i as usize),
        _ => None,
    };
    Some((kind, Req { body, ctype, cfg, declared_len }))
}

thread_local! {
    static RT: (tokio::runtime::Runtime, tokio::task::LocalSet) = (
        tokio::runtime::Builder::new_current_thread().enable_all().build().unwrap(),
        tokio::task::LocalSet::new(),
    );
}

fn block<F: std::future::Future>(f: F) -> F::Output {
    RT.with(|(rt, ls)| ls.block_on(rt, f))
}

fn test(case: &Case, stats: Option<&mut Stats>) -> Verdict {
    let Some((kind, req)) = decode(case) else { return Verdict::Ok };
    let t = case.ty % TARGETS.len();
    let results: Vec<(&'static str, Obs, Obs, Class)> = match kind.as_str() {
        "json" => {
            let (a, x) = block(async {
                match t {
                    0 => (actix_json::<Point>(&req).await, axum_json::<Point>(&req).await),
                    1 => (actix_json::<Strict>(&req).await, axum_json::<Strict>(&req).await),
                    2 => (actix_json::<Camel>(&req).await, axum_json::<Camel>(&req).await),
                    3 => (actix_json::<Shape>(&req).await, axum_json::<Shape>(&req).await),
                    _ => (actix_json::<Vec<Point>>(&req).await, axum_json::<Vec<Point>>(&req).await),
                }
            });
            let (a2, x2) = block(async {
                match t {
                    0 => (actix_json_tea::<Point>(&req).await, axum_json_tea::<Point>(&req).await),
                    1 => (actix_json_tea::<Strict>(&req).await, axum_json_tea::<Strict>(&req).await),
                    2 => (actix_json_tea::<Camel>(&req).await, axum_json_tea::<Camel>(&req).await),
                    3 => (actix_json_tea::<Shape>(&req).await, axum_json_tea::<Shape>(&req).await),
                    _ => (actix_json_tea::<Vec<Point>>(&req).await, axum_json_tea::<Vec<Point>>(&req).await),
                }
            });
            vec![
                ("actix-json", a.0, a.1, a.2),
                ("axum-json", x.0, x.1, x.2),
                ("actix-json/custom-error", a2.0, a2.1, a2.2),
                ("axum-json/custom-error", x2.0, x2.1, x2.2),
            ]
        }
        "query" => {
            let qs = String::from_utf8_lossy(&req.body).to_string();
            // the request line cannot carry arbitrary bytes
            if !qs.bytes().all(|b| b.is_ascii_graphic()) || qs.contains('#') || qs.contains('?') || format!("/x?{qs}").parse::<http::Uri>().is_err() {
                return Verdict::Ok;
            }
            let q = block(actix_query::<QSearch>(&qs));
            vec![("actix-query", q.0, q.1, q.2)]
        }
        _ => return Verdict::Ok,
    };
    if let Some(st) = stats {
        st.executions += 2 * results.len() as u64;
        if req.cfg != 0 {
            st.class("actix JsonConfig in app data");
        }
        if req.declared_len.is_some() {
            st.class("declared Content-Length above the limit");
        }
        if req.body.len() > 2 * 1024 * 1024 {
            st.class("body above 2 MiB");
        }
        for (which, _, want, class) in &results {
            st.class(&format!("{which}: {class:?}"));
            let nested = matches!(want, Obs::Ok(_)) && case.payload.size() > 40;
            if *class != Class::WellTyped || nested {
                st.nontrivial(&(which, &case.payload));
            }
        }
        if st.want_sample() {
            st.samples.push(json!({"target": if kind == "query" { "QSearch" } else { TARGETS[t] }, "kind": kind, "content_type": req.ctype,
                "body": String::from_utf8_lossy(&req.body[..req.body.len().min(300)]), "body_len": req.body.len(), "observed": results.iter().map(|(w, g, _, c)| json!({"extractor": w, "class": format!("{c:?}"), "outcome": show(g)})).collect::<Vec<_>>()}));
        }
    }
    for (which, got, want, class) in &results {
        if !same(got, want) {
            let aspect = match (got, want) {
                (Obs::Ok(_), Obs::Ok(_)) => "different-value",
                (Obs::Ok(_), Obs::Rejected(..)) => "accepted-what-the-reference-rejects",
                (Obs::Rejected(..), Obs::Ok(_)) => "rejected-what-the-reference-accepts",
                _ => "rejection-differs",
            };
            return Verdict::Violation(
                format!("C20|{which}|{aspect}|{class:?}"),
                json!({"what": format!("{which}: extractor gave {} but the framework's own extractor composed with deserr::deserialize gives {}", show(got), show(want)),
                       "content_type": req.ctype, "cfg": req.cfg, "declared_len": req.declared_len, "body_len": req.body.len(), "body": String::from_utf8_lossy(&req.body[..req.body.len().min(400)])}),
            );
        }
    }
    Verdict::Ok
}

fn gen() -> GenFn {
    Arc::new(move |rng| {
        let t = rng.random_range(0..TARGETS.len());
        let query = rng.random_range(0..4) == 0;
        let mut g = Gen::new(rng, GenCfg { fault: 0.0, plain_text: false, ..GenCfg::default() });
        let (kind, body, ctype): (&str, Vec<u8>, Option<String>) = if query {
            let keys = ["q", "pageSize", "sortBy", "page_size", "Q", "x", "sort", ""];
            let vals = ["abc", "10", "a%20b", "%zz", "%", "a+b", "", "%E6%97%A5", "a=b", "1,2"];
            let n = g.below(5);
            let mut parts: Vec<String> = vec![];
            if g.chance(0.8) {
                parts.push(format!("q={}", g.pick(&vals)));
            }
            for _ in 0..n {
                match g.below(8) {
                    0 => parts.push(String::new()),
                    1 => parts.push(g.pick(&keys).to_string()),
                    2 => parts.push(format!("={}", g.pick(&vals))),
                    _ => parts.push(format!("{}={}", g.pick(&keys), g.pick(&vals))),
                }
            }
            ("query", parts.join("&").into_bytes(), None)
        } else {
            let ty = target_ty(t);
            let class = g.below(11);
            let doc = match class {
                10 => {
                    // documents whose rejection message is long (above 1 KiB / 4 KiB): a long string or array where
                    // something else is expected, a very long unknown key next to a valid document
                    let n = [600usize, 1100, 1500, 4200][g.below(4)];
                    match g.below(3) {
                        0 => PV::Str("a".repeat(n)),
                        1 => PV::Seq((0..n / 3).map(|i| PV::Int(i as u64 % 10)).collect()),
                        _ => {
                            g.cfg.fault = 0.0;
                            match g.typed(&ty, 0) {
                                PV::Map(mut m) => {
                                    m.push(("k".repeat(n), PV::Null));
                                    PV::Map(m)
                                }
                                _ => PV::Map(vec![("k".repeat(n), PV::Null)]),
                            }
                        }
                    }
                }
                0..=3 => {
                    g.cfg.fault = 0.0;
                    g.typed(&ty, 0)
                }
                4..=6 => {
                    g.cfg.fault = 0.3;
                    g.typed(&ty, 0)
                }
                7 => g.blind(0),
                _ => {
                    g.cfg.fault = 0.0;
                    g.typed(&ty, 0)
                }
            };
            let mut text = doc.to_json().map(|j| j.to_string()).unwrap_or_else(|| "null".into()).into_bytes();
            if class == 8 || class == 9 {
                // malformed: truncate or flip a byte
                if !text.is_empty() {
                    if g.chance(0.5) {
                        let k = g.below(text.len());
                        text.truncate(k);
                    } else {
                        let k = g.below(text.len());
                        text[k] = *g.pick(&[b'{', b'}', b'"', b',', b'x', 0xff, b' ', b':']);
                    }
                }
            }
            if g.chance(0.03) {
                text.clear();
            }
            let ctype = match g.below(16) {
                0 => None,
                1 => Some("text/plain"),
                2 => Some("application/json; charset=utf-8"),
                3 => Some("application/vnd.api+json"),
                4 => Some("APPLICATION/JSON"),
                5 => Some("application/jsonx"),
                // structured-syntax suffixes with parameters, parameters that merely look like a JSON type
                6 => Some(*g.pick(&[
                    "application/vnd.api+json; charset=utf-8",
                    "application/vnd.api+json;charset=UTF-8",
                    "application/ld+json; profile=\"x\"",
                    "application/octet-stream; format=x+json",
                    "text/plain; note=application/json",
                    "application/json;charset=UTF-8",
                    "application/json ; charset=utf-8",
                    "application/problem+JSON",
                    "application/+json",
                    "application/json+x",
                    "json",
                    "",
                ])),
                _ => Some("application/json"),
            };
            ("json", text, ctype.map(|s| s.to_string()))
        };
        let body: Vec<u8> = body;
        let mut m = vec![("kind".to_string(), PV::str(kind))];
        if let Some(c) = ctype {
            m.push(("ctype".to_string(), PV::Str(c)));
        }
        let mut body = body;
        if kind == "json" {
            // app-level configuration of the framework's JSON extractor (both sides get the same)
            match g.below(8) {
                0 => m.push(("cfg".to_string(), PV::Int(1))),
                1 => m.push(("cfg".to_string(), PV::Int(2))),
                2 => m.push(("cfg".to_string(), PV::Int(3))),
                _ => {}
            }
            // a declared length above the framework's limit, with a small body
            if g.below(60) == 0 {
                m.push(("declared_len".to_string(), PV::Int(3_000_000)));
            }
            // a body above the frameworks' default 2 MiB limit (a long JSON string)
            // (kept symbolic in the case - `big: n` stands for a JSON string of n letters - so that the
            // shrinker does not have to walk two million nodes)
            if g.below(1500) == 0 {
                let n = 2 * 1024 * 1024 + 64 + g.below(4096);
                m.push(("big".to_string(), PV::Int(n as u64)));
                body = vec![];
            }
        }
        m.push(("body".to_string(), PV::Seq(body.into_iter().map(|b| PV::Int(b as u64)).collect())));
        Case { ty: t, payload: PV::Map(m), script: Script::all_continue(), aux: 0, faults: 0 }
    })
}

fn case_json(c: &Case) -> J {
    let d = decode(c);
    json!({"target": c.ty, "payload": c.payload.encode(),
           "kind": d.as_ref().map(|x| x.0.clone()), "content_type": d.as_ref().and_then(|x| x.1.ctype.clone()),
           "body_text": d.as_ref().map(|x| String::from_utf8_lossy(&x.1.body).to_string())})
}

fn main() {
    let args: Vec<String> = std::env::args().collect();
    if args.len() < 3 {
        eprintln!("usage: dv_http C20 <quick|thorough> | --replay <file>");
        std::process::exit(2);
    }
    if std::env::var("VERIF_DEBUG").is_err() {
        std::panic::set_hook(Box::new(|_| {}));
    }
    if args[1] == "--replay" {
        let s = std::fs::read_to_string(&args[2]).unwrap_or_default();
        let Ok(j) = serde_json::from_str::<J>(&s) else { std::process::exit(2) };
        let Ok(payload) = PV::decode(&j["case"]["payload"]) else { std::process::exit(2) };
        let case = Case { ty: j["case"]["target"].as_u64().unwrap_or(0) as usize, payload, script: Script::all_continue(), aux: 0, faults: 0 };
        match test(&case, None) {
            Verdict::Violation(sig, d) => {
                println!("C20 replay: VIOLATED [{sig}] {d}");
                std::process::exit(1);
            }
            _ => {
                println!("C20 replay: the property holds on this request");
                std::process::exit(0);
            }
        }
    }
    let tier = if args[2] == "thorough" { Tier::Thorough } else { Tier::Quick };
    let mut rep = Report::new(
        "C20",
        tier,
        "cases = requests: JSON bodies (well-typed for the target / ill-typed / arbitrary documents / malformed by truncation or byte flip / empty) x content types (application/json, charset and +json variants, upper case, text/plain, look-alike, absent) \
         for targets Point, Strict, Camel, Shape, Vec<Point> through AwebJson and AxumJson; query strings (well-formed, repeated keys, percent-escapes, malformed escapes, empty keys/values, unknown keys) through AwebQueryParameter (from_request and from_query); \
         oracle (differential): extractor outcome == the framework's own Json<Value> / Query<Value> extractor on an identical request composed with deserr::deserialize: equal values; or status 400 with the JsonError text as body (actix: exactly text/plain, and the actix error downcasts to the very JsonError); or the framework's rejection with identical status and body; the same with a custom error type whose HTTP rendering is 422 + a JSON body (an extractor that rebuilds the rejection from the error's text instead of carrying the error shows up); \
         non-trivial = the case is a deserr failure or a framework rejection, or a large well-typed document; distinct by (extractor, request)",
    );
    let known = open_known("C20");
    let w: usize = std::env::var("VERIF_WORKERS").ok().and_then(|s| s.parse().ok()).unwrap_or(16);
    let n = tier.pick(160_000u32, 4_000_000u32) / w as u32;
    let out = run_cases("C20", rep.seed, w, n, gen(), move |case, stats| match test(case, stats) {
        Verdict::Violation(sig, _) if known.contains_key(&sig) => Verdict::Known(sig),
        v => v,
    });
    rep.stats = out.stats;
    for f in out.failures {
        rep.failures.push((f.signature.clone(), f.details.clone(), Some(case_json(&f.case))));
    }
    // all classes must be populated, otherwise the run is inconclusive (infrastructure, not a verdict)
    let need = ["actix-json: WellTyped", "actix-json: DeserrFailure", "actix-json: FrameworkRejection", "axum-json: WellTyped", "axum-json: DeserrFailure", "axum-json: FrameworkRejection", "actix-query: WellTyped", "actix-query: DeserrFailure"];
    let missing: Vec<&str> = need.iter().filter(|c| rep.stats.classes.get(**c).copied().unwrap_or(0) == 0).copied().collect();
    let had_failures = !rep.failures.is_empty();
    let code = rep.finish();
    if !missing.is_empty() && !had_failures {
        eprintln!("INCONCLUSIVE: classes not populated: {missing:?}");
        std::process::exit(2);
    }
    std::process::exit(code);
}
