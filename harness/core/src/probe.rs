//! Call-logging user functions (const-generic probes) used in derive attributes, with
//! failure rules that are pure functions of the argument's model (known to the interpreter).

use crate::model::{ToModel, M};
use crate::pv::path_from_ref;
use crate::rec::ProbeErr;
use crate::trace::{self, Event, ProbeData};
use deserr::ValuePointerRef;

/// value produced by a from / try_from probe
#[derive(Debug, Clone, Default, PartialEq)]
pub struct Tagged<S> {
    pub via: u32,
    pub inner: S,
}

impl<S: ToModel> ToModel for Tagged<S> {
    fn to_model(&self) -> M {
        M::Conv { via: self.via, inner: Box::new(self.inner.to_model()) }
    }
}

/// rule: a conversion probe fails iff its argument is a string starting with '!', an odd
/// integer >= 100, `false`, a sequence whose first element fails, or the JSON null / []
/// (looking through Option/Some)
pub fn conv_fails(m: &M) -> bool {
    match m {
        M::Str(s) => s.starts_with('!'),
        M::Int(i) => *i >= 100 && i % 2 == 1,
        M::Some(x) => conv_fails(x),
        M::Bool(b) => !*b,
        M::Seq(v) => v.first().map(conv_fails).unwrap_or(false),
        M::Json(t) => t == "null" || t == "[]",
        _ => false,
    }
}

/// rule: a validate probe fails iff a direct field (looking through Some/Conv) is the integer 77
/// or the string "bad"; for non-struct values, iff the value itself is.
pub fn validate_fails(m: &M) -> bool {
    fn magic(m: &M) -> bool {
        match m {
            M::Int(77) => true,
            M::Str(s) => s == "bad",
            M::Some(x) => magic(x),
            M::Conv { inner, .. } => magic(inner),
            _ => false,
        }
    }
    match m {
        M::Struct { fields, .. } | M::Variant { fields, .. } => fields.iter().any(|(_, v)| magic(v)),
        m => magic(m),
    }
}

/// the model-level effect of a `map` probe
pub fn bump_m(m: &M) -> M {
    match m {
        M::Int(i) => M::Int(i ^ 1),
        M::Str(s) => M::Str(format!("{s}~")),
        M::Bool(b) => M::Bool(!b),
        M::None => M::None,
        M::Some(x) => M::Some(Box::new(bump_m(x))),
        M::Conv { via, inner } => M::Conv { via: via.wrapping_add(1_000_000), inner: inner.clone() },
        m => m.clone(),
    }
}

pub trait Bump {
    fn bump(self) -> Self;
}
macro_rules! bump_int {
    ($($t:ty),*) => {$( impl Bump for $t { fn bump(self) -> Self { self ^ 1 } } )*};
}
bump_int!(u8, u16, u32, u64, usize, i8, i16, i32, i64, isize, u128, i128);
impl Bump for String {
    fn bump(mut self) -> Self {
        self.push('~');
        self
    }
}
impl Bump for bool {
    fn bump(self) -> Self {
        !self
    }
}
impl<T: Bump> Bump for Option<T> {
    fn bump(self) -> Self {
        self.map(|x| x.bump())
    }
}
impl<S> Bump for Tagged<S> {
    fn bump(mut self) -> Self {
        self.via = self.via.wrapping_add(1_000_000);
        self
    }
}

pub fn from_p<const ID: u32, S: ToModel>(s: S) -> Tagged<S> {
    trace::push(Event::UserFn { id: ID, role: "from", arg: s.to_model(), loc: None, ok: true });
    Tagged { via: ID, inner: s }
}

pub fn from_ref_p<const ID: u32, S: ToModel + Clone>(s: &S) -> Tagged<S> {
    trace::push(Event::UserFn { id: ID, role: "from", arg: s.to_model(), loc: None, ok: true });
    Tagged { via: ID, inner: s.clone() }
}

pub fn try_p<const ID: u32, S: ToModel>(s: S) -> Result<Tagged<S>, ProbeErr> {
    let m = s.to_model();
    let fails = conv_fails(&m);
    trace::push(Event::UserFn { id: ID, role: "try_from", arg: m, loc: None, ok: !fails });
    if fails {
        Err(ProbeErr(ProbeData::Failed { id: ID, role: "try_from" }))
    } else {
        Ok(Tagged { via: ID, inner: s })
    }
}

pub fn try_ref_p<const ID: u32, S: ToModel + Clone>(s: &S) -> Result<Tagged<S>, ProbeErr> {
    let m = s.to_model();
    let fails = conv_fails(&m);
    trace::push(Event::UserFn { id: ID, role: "try_from", arg: m, loc: None, ok: !fails });
    if fails {
        Err(ProbeErr(ProbeData::Failed { id: ID, role: "try_from" }))
    } else {
        Ok(Tagged { via: ID, inner: s.clone() })
    }
}

pub fn map_p<const ID: u32, T: ToModel + Bump>(t: T) -> T {
    trace::push(Event::UserFn { id: ID, role: "map", arg: t.to_model(), loc: None, ok: true });
    t.bump()
}

pub fn validate_p<const ID: u32, T: ToModel>(t: T, loc: ValuePointerRef) -> Result<T, ProbeErr> {
    let m = t.to_model();
    let fails = validate_fails(&m);
    trace::push(Event::UserFn { id: ID, role: "validate", arg: m, loc: Some(path_from_ref(loc)), ok: !fails });
    if fails {
        Err(ProbeErr(ProbeData::Failed { id: ID, role: "validate" }))
    } else {
        Ok(t)
    }
}

/// the probe ids 9500..9600 belong to `validate_rec_p` (hand-written types only; generated ids start far above)
pub fn is_own_error_validate(id: u32) -> bool {
    (9500..9600).contains(&id)
}

/// A `validate` function whose error type is the container's own (recording) error type: there is no foreign
/// error type in between, the function itself asks the error type to record the failure, and the derived code
/// must still hand that error over at the container's location.
pub fn validate_rec_p<const ID: u32, T: ToModel>(t: T, loc: ValuePointerRef) -> Result<T, crate::rec::Rec<0>> {
    let m = t.to_model();
    let fails = validate_fails(&m);
    trace::push(Event::UserFn { id: ID, role: "validate", arg: m, loc: Some(path_from_ref(loc)), ok: !fails });
    if fails {
        Err(deserr::take_cf_content(<crate::rec::Rec<0> as deserr::DeserializeError>::error::<std::convert::Infallible>(
            None,
            deserr::ErrorKind::Unexpected { msg: format!("validate#{ID} rejected the value") },
            loc,
        )))
    } else {
        Ok(t)
    }
}

pub fn missing_p<const ID: u32>(key: &str, loc: ValuePointerRef) -> ProbeErr {
    ProbeErr(ProbeData::Missing { id: ID, key: key.to_string(), loc: path_from_ref(loc) })
}

pub fn unknown_p<const ID: u32>(key: &str, accepted: &[&str], loc: ValuePointerRef) -> ProbeErr {
    ProbeErr(ProbeData::Unknown {
        id: ID,
        key: key.to_string(),
        accepted: accepted.iter().map(|s| s.to_string()).collect(),
        loc: path_from_ref(loc),
    })
}
