//! `Rec<TAG>`: the recording, scripted error type.  It keeps every report id it is handed,
//! logs every `error()` / `merge()` call with its arguments, and answers Continue/Break from
//! the thread-local script.

use crate::pv::{path_from_ref, Kind, PV};
use crate::trace::{self, Event, ProbeData, RKind};
use deserr::{DeserializeError, ErrorKind, IntoValue, Map, MergeWithError, Sequence, Value, ValuePointerRef};
use std::ops::ControlFlow;

#[derive(Debug, Clone, PartialEq)]
pub struct Rec<const TAG: u8> {
    pub ids: Vec<u32>,
    /// index (in the trace) of the event that built this value
    pub built_by: usize,
}

/// deep structural copy of a deserr `Value<V>` through the public IntoValue API only
pub fn copy_value<V: IntoValue>(v: Value<V>) -> PV {
    match v {
        Value::Null => PV::Null,
        Value::Boolean(b) => PV::Bool(b),
        Value::Integer(i) => PV::Int(i),
        Value::NegativeInteger(i) => PV::Neg(i),
        Value::Float(f) => PV::Float(f),
        Value::String(s) => PV::Str(s),
        Value::Sequence(s) => copy_seq::<V>(s),
        Value::Map(m) => PV::Map(m.into_iter().map(|(k, x)| (k, copy_value(x.into_value()))).collect()),
    }
}

pub fn copy_seq<V: IntoValue>(s: V::Sequence) -> PV {
    PV::Seq(s.into_iter().map(|x| copy_value(x.into_value())).collect())
}

pub fn copy_kind<V: IntoValue>(k: ErrorKind<V>) -> RKind {
    trace::quiet_inc();
    let r = match k {
        ErrorKind::IncorrectValueKind { actual, accepted } => RKind::IncorrectValueKind {
            actual: copy_value(actual),
            accepted: accepted.iter().map(|k| Kind::from_deserr(*k)).collect(),
        },
        ErrorKind::MissingField { field } => RKind::MissingField { field: field.to_string() },
        ErrorKind::UnknownKey { key, accepted } => RKind::UnknownKey {
            key: key.to_string(),
            accepted: accepted.iter().map(|s| s.to_string()).collect(),
        },
        ErrorKind::UnknownValue { value, accepted } => RKind::UnknownValue {
            value: value.to_string(),
            accepted: accepted.iter().map(|s| s.to_string()).collect(),
        },
        ErrorKind::BadSequenceLen { actual, expected } => RKind::BadSequenceLen {
            actual: copy_seq::<V>(actual),
            expected,
        },
        ErrorKind::Unexpected { msg } => RKind::Unexpected { msg },
    };
    trace::quiet_dec();
    r
}

fn answer<T>(cont: bool, v: T) -> ControlFlow<T, T> {
    if cont {
        ControlFlow::Continue(v)
    } else {
        ControlFlow::Break(v)
    }
}

impl<const TAG: u8> Rec<TAG> {
    fn report(self_: Option<Self>, kind: RKind, location: ValuePointerRef) -> ControlFlow<Self, Self> {
        let id = trace::fresh_id();
        let cont = trace::next_answer();
        let self_ids = self_.as_ref().map(|s| s.ids.clone());
        let at = trace::push(Event::Report {
            id,
            tag: TAG,
            kind,
            loc: path_from_ref(location),
            self_ids,
            cont,
        });
        let mut ids = self_.map(|s| s.ids).unwrap_or_default();
        ids.push(id);
        answer(cont, Rec { ids, built_by: at })
    }
}

impl<const TAG: u8> DeserializeError for Rec<TAG> {
    fn error<V: IntoValue>(
        self_: Option<Self>,
        error: ErrorKind<V>,
        location: ValuePointerRef,
    ) -> ControlFlow<Self, Self> {
        let kind = copy_kind(error);
        Self::report(self_, kind, location)
    }
}

impl<const A: u8, const B: u8> MergeWithError<Rec<B>> for Rec<A> {
    fn merge(self_: Option<Self>, other: Rec<B>, merge_location: ValuePointerRef) -> ControlFlow<Self, Self> {
        let cont = trace::next_answer();
        let self_ids = self_.as_ref().map(|s| s.ids.clone());
        let at = trace::push(Event::HandOver {
            from: B,
            to: A,
            self_ids,
            other_ids: other.ids.clone(),
            other_built_by: other.built_by,
            loc: path_from_ref(merge_location),
            cont,
        });
        let mut ids = self_.map(|s| s.ids).unwrap_or_default();
        ids.extend(other.ids);
        answer(cont, Rec { ids, built_by: at })
    }
}

/// Error value returned by the probe user functions.
#[derive(Debug, Clone, PartialEq, Eq)]
pub struct ProbeErr(pub ProbeData);

impl std::fmt::Display for ProbeErr {
    fn fmt(&self, f: &mut std::fmt::Formatter<'_>) -> std::fmt::Result {
        match &self.0 {
            ProbeData::Failed { id, role } => write!(f, "probe {role} {id} failed"),
            ProbeData::Missing { id, key, .. } => write!(f, "probe missing {id} key {key}"),
            ProbeData::Unknown { id, key, .. } => write!(f, "probe unknown {id} key {key}"),
        }
    }
}
impl std::error::Error for ProbeErr {}

impl<const A: u8> MergeWithError<ProbeErr> for Rec<A> {
    fn merge(self_: Option<Self>, other: ProbeErr, merge_location: ValuePointerRef) -> ControlFlow<Self, Self> {
        Self::report(self_, RKind::Foreign(other.0), merge_location)
    }
}
