#![allow(non_snake_case, unpredictable_function_pointer_comparisons)]
pub mod catalogue;
pub mod compare;
pub mod entry;
pub mod evidence;
pub mod genp;
pub mod interp;
pub mod model;
pub mod oracles;
pub mod ov;
pub mod probe;
pub mod pv;
pub mod rec;
pub mod sites;
pub mod runner;
pub mod trace;
pub mod ty;
