//! Registry entries: a target type with its descriptor and monomorphised runners.

use crate::model::{ToModel, M};
use crate::ov::OV;
use crate::pv::PV;
use crate::rec::Rec;
use crate::trace::{self, Event, Script};
use crate::ty::{Described, Ty};
use deserr::errors::{JsonError, QueryParamError};
use deserr::Deserr;
use std::panic::{catch_unwind, AssertUnwindSafe};

#[derive(Clone, Copy, Debug, PartialEq, Eq, Hash)]
pub enum Src {
    /// the instrumented, order-preserving second IntoValue implementation
    Ov,
    /// serde_json::Value (sorted, de-duplicated keys, finite floats only)
    Json,
}

#[derive(Clone, Debug)]
pub struct Outcome {
    /// Ok(model of the value) or Err(ids held by the returned error)
    pub result: Result<M, Vec<u32>>,
    pub trace: Vec<Event>,
    /// a panic crossed `deserr::deserialize`
    pub panicked: Option<String>,
}

pub fn panic_msg(p: Box<dyn std::any::Any + Send>) -> String {
    if let Some(s) = p.downcast_ref::<&str>() {
        s.to_string()
    } else if let Some(s) = p.downcast_ref::<String>() {
        s.clone()
    } else {
        "<non-string panic>".to_string()
    }
}

/// one recorded run of `deserr::deserialize::<T, _, Rec<0>>`
pub fn run_rec<T: Deserr<Rec<0>> + ToModel>(payload: &PV, src: Src, script: &Script) -> Outcome {
    // build the source value before recording starts
    enum S {
        O(OV),
        J(serde_json::Value),
    }
    let s = match src {
        Src::Ov => S::O(OV::from_pv(payload)),
        Src::Json => S::J(payload.to_json().expect("payload not representable in serde_json")),
    };
    trace::begin(script.clone());
    let r = catch_unwind(AssertUnwindSafe(|| match s {
        S::O(o) => deserr::deserialize::<T, _, Rec<0>>(o),
        S::J(j) => deserr::deserialize::<T, _, Rec<0>>(j),
    }));
    let tr = trace::end();
    match r {
        Ok(Ok(v)) => Outcome { result: Ok(v.to_model()), trace: tr, panicked: None },
        Ok(Err(e)) => Outcome { result: Err(e.ids), trace: tr, panicked: None },
        Err(p) => Outcome { result: Err(vec![]), trace: tr, panicked: Some(panic_msg(p)) },
    }
}

/// Ok(Ok(model)) | Ok(Err(message)) | Err(panic message)
pub type MsgOutcome = Result<Result<M, String>, String>;

pub fn run_json_err<T: Deserr<JsonError> + ToModel>(payload: &PV) -> MsgOutcome {
    let j = payload.to_json().expect("payload not representable in serde_json");
    let r = catch_unwind(AssertUnwindSafe(|| deserr::deserialize::<T, _, JsonError>(j)));
    match r {
        Ok(Ok(v)) => Ok(Ok(v.to_model())),
        Ok(Err(e)) => Ok(Err(e.to_string())),
        Err(p) => Err(panic_msg(p)),
    }
}

pub fn run_query_err<T: Deserr<QueryParamError> + ToModel>(payload: &PV) -> MsgOutcome {
    let j = payload.to_json().expect("payload not representable in serde_json");
    let r = catch_unwind(AssertUnwindSafe(|| deserr::deserialize::<T, _, QueryParamError>(j)));
    match r {
        Ok(Ok(v)) => Ok(Ok(v.to_model())),
        Ok(Err(e)) => Ok(Err(e.to_string())),
        Err(p) => Err(panic_msg(p)),
    }
}

#[derive(Clone)]
pub struct Entry {
    pub name: String,
    /// Rust source text of the type (derive input) where it is not a std type
    pub source: String,
    pub ty: Ty,
    pub rec: fn(&PV, Src, &Script) -> Outcome,
    pub json_err: Option<fn(&PV) -> MsgOutcome>,
    pub query_err: Option<fn(&PV) -> MsgOutcome>,
    /// origin: "std", "hand", "gen"
    pub origin: &'static str,
}

impl Entry {
    pub fn generic<T>(name: &str, source: &str, origin: &'static str) -> Entry
    where
        T: Described + ToModel + Deserr<Rec<0>> + Deserr<JsonError> + Deserr<QueryParamError>,
    {
        Entry {
            name: name.to_string(),
            source: source.to_string(),
            ty: T::ty(),
            rec: run_rec::<T>,
            json_err: Some(run_json_err::<T>),
            query_err: Some(run_query_err::<T>),
            origin,
        }
    }
    /// types whose impl is pinned to `Rec<0>` (container `error = Rec<0>`)
    pub fn rec_only<T>(name: &str, source: &str, origin: &'static str) -> Entry
    where
        T: Described + ToModel + Deserr<Rec<0>>,
    {
        Entry {
            name: name.to_string(),
            source: source.to_string(),
            ty: T::ty(),
            rec: run_rec::<T>,
            json_err: None,
            query_err: None,
            origin,
        }
    }
}

#[macro_export]
macro_rules! std_entry {
    ($t:ty) => {
        $crate::entry::Entry::generic::<$t>(stringify!($t), "", "std")
    };
}
