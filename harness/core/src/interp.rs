//! Reference interpreter of the *documented* semantics (book + rustdoc + property
//! statements; see DESIGN.md Appendix A).  It never calls into deserr.
//!
//! `interp(ty, payload)` predicts, for an always-Continue error type: the result value, the
//! multiset of reports, the set of payload nodes that must be examined, the nodes that must
//! *not* be examined, and the user-function calls.

use crate::model::M;
use crate::ov::{OV, OVK};
use crate::probe::{bump_m, conv_fails, validate_fails};
use crate::pv::{Kind, Path, Step, PV};
use crate::trace::{ProbeData, RKind};
use crate::ty::*;
use std::collections::BTreeSet;

#[derive(Clone, Debug, PartialEq)]
pub enum PKind {
    IncorrectValueKind { actual: PV, accepted: BTreeSet<Kind> },
    MissingField { field: String },
    UnknownKey { key: String, accepted: Vec<String> },
    UnknownValue { value: String, accepted: Vec<String> },
    BadSequenceLen { actual: PV, expected: usize },
    /// free-text report; every listed string must occur in the message
    Unexpected { must_contain: Vec<String>, any_of: Vec<String>, any_of2: Vec<String>, why: &'static str },
    Foreign(ProbeData),
}

impl PKind {
    pub fn class(&self) -> &'static str {
        match self {
            PKind::IncorrectValueKind { .. } => "IncorrectValueKind",
            PKind::MissingField { .. } => "MissingField",
            PKind::UnknownKey { .. } => "UnknownKey",
            PKind::UnknownValue { .. } => "UnknownValue",
            PKind::BadSequenceLen { .. } => "BadSequenceLen",
            PKind::Unexpected { .. } => "Unexpected",
            PKind::Foreign(_) => "Foreign",
        }
    }
    pub fn matches(&self, k: &RKind) -> bool {
        match (self, k) {
            (
                PKind::IncorrectValueKind { actual, accepted },
                RKind::IncorrectValueKind { actual: a2, accepted: acc2 },
            ) => actual == a2 && *accepted == acc2.iter().copied().collect::<BTreeSet<_>>(),
            (PKind::MissingField { field }, RKind::MissingField { field: f2 }) => field == f2,
            (PKind::UnknownKey { key, accepted }, RKind::UnknownKey { key: k2, accepted: a2 }) => {
                key == k2 && accepted == a2
            }
            (PKind::UnknownValue { value, accepted }, RKind::UnknownValue { value: v2, accepted: a2 }) => {
                value == v2 && accepted == a2
            }
            (PKind::BadSequenceLen { actual, expected }, RKind::BadSequenceLen { actual: a2, expected: e2 }) => {
                actual == a2 && expected == e2
            }
            (PKind::Unexpected { must_contain, any_of, any_of2, .. }, RKind::Unexpected { msg }) => {
                must_contain.iter().all(|s| msg.contains(s.as_str()))
                    && (any_of.is_empty() || any_of.iter().any(|s| msg.contains(s.as_str())))
                    && (any_of2.is_empty() || any_of2.iter().any(|s| msg.contains(s.as_str())))
            }
            (PKind::Foreign(p), RKind::Foreign(p2)) => p == p2,
            _ => false,
        }
    }
}

#[derive(Clone, Debug, PartialEq)]
pub struct PReport {
    pub loc: Path,
    pub kind: PKind,
    /// the report stems from a *structural* fault (wrong container kind, wrong arity,
    /// absent/unusable tag) that hides everything below
    pub structural: bool,
}

#[derive(Clone, Debug, PartialEq)]
pub struct PCall {
    pub id: u32,
    pub role: &'static str,
    pub arg: M,
    pub loc: Option<Path>,
    pub ok: bool,
}

#[derive(Clone, Debug, Default)]
pub struct Pred {
    pub reports: Vec<PReport>,
    /// nodes that must be consumed (into_value called on them)
    pub visited: BTreeSet<u32>,
    /// nodes that must never be consumed (values of skipped fields / unknown keys / ignored entries)
    pub unvisited: BTreeSet<u32>,
    pub calls: Vec<PCall>,
}

pub struct Interp {
    pub pred: Pred,
}

pub fn pv_of(ov: &OV) -> PV {
    match &ov.v {
        OVK::Null => PV::Null,
        OVK::Bool(b) => PV::Bool(*b),
        OVK::Int(i) => PV::Int(*i),
        OVK::Neg(i) => PV::Neg(*i),
        OVK::Float(f) => PV::Float(*f),
        OVK::Str(s) => PV::Str(s.clone()),
        OVK::Seq(s) => PV::Seq(s.iter().map(pv_of).collect()),
        OVK::Map(m) => PV::Map(m.iter().map(|(k, v)| (k.clone(), pv_of(v))).collect()),
    }
}

fn all_ids(ov: &OV, out: &mut BTreeSet<u32>) {
    out.insert(ov.id);
    match &ov.v {
        OVK::Seq(s) => s.iter().for_each(|x| all_ids(x, out)),
        OVK::Map(m) => m.iter().for_each(|(_, x)| all_ids(x, out)),
        _ => {}
    }
}

/// run the reference interpreter on the whole payload
pub fn interp(ty: &Ty, payload: &PV) -> (Option<M>, Pred) {
    let ov = OV::from_pv(payload);
    let mut it = Interp { pred: Pred::default() };
    it.pred.visited.insert(ov.id);
    let v = it.go(ty, &ov, &mut vec![]);
    (v, it.pred)
}

impl Interp {
    fn report(&mut self, loc: &Path, kind: PKind, structural: bool) {
        self.pred.reports.push(PReport { loc: loc.clone(), kind, structural });
    }

    fn wrong_kind(&mut self, ov: &OV, loc: &Path, accepted: &[Kind], structural: bool) -> Option<M> {
        self.report(
            loc,
            PKind::IncorrectValueKind { actual: pv_of(ov), accepted: accepted.iter().copied().collect() },
            structural,
        );
        None
    }

    /// `ov` itself has already been marked visited by the caller.
    pub fn go(&mut self, ty: &Ty, ov: &OV, loc: &mut Path) -> Option<M> {
        match ty {
            Ty::Lazy(f) => {
                let t = f();
                self.go(&t, ov, loc)
            }
            Ty::Unit => match &ov.v {
                OVK::Null => Some(M::Unit),
                _ => self.wrong_kind(ov, loc, &[Kind::Null], false),
            },
            Ty::Bool => match &ov.v {
                OVK::Bool(b) => Some(M::Bool(*b)),
                _ => self.wrong_kind(ov, loc, &[Kind::Boolean], false),
            },
            Ty::Str => match &ov.v {
                OVK::Str(s) => Some(M::Str(s.clone())),
                _ => self.wrong_kind(ov, loc, &[Kind::String], false),
            },
            Ty::Char => match &ov.v {
                OVK::Str(s) => {
                    let n = s.chars().count();
                    if n == 1 {
                        Some(M::Char(s.chars().next().unwrap()))
                    } else if n == 0 {
                        self.report(
                            loc,
                            PKind::Unexpected { must_contain: vec![], any_of: vec!["empty".into(), "0 char".into(), "zero char".into(), "no char".into(), "``".into(), "\"\"".into()], any_of2: vec![], why: "char from empty string" },
                            false,
                        );
                        None
                    } else {
                        self.report(
                            loc,
                            PKind::Unexpected {
                                // the string (raw or escaped) and its length in characters
                                must_contain: vec![n.to_string()],
                                any_of: vec![s.clone(), format!("{s:?}").trim_matches('"').to_string(), serde_json::to_string(s).unwrap_or_default().trim_matches('"').to_string()],
                                any_of2: vec![],
                                why: "char from a string of several characters",
                            },
                            false,
                        );
                        None
                    }
                }
                _ => self.wrong_kind(ov, loc, &[Kind::String], false),
            },
            Ty::Int(it) => self.go_int(it, ov, loc),
            Ty::F32 => match &ov.v {
                OVK::Int(i) => Some(M::f32(exact_to_f32(&i.to_string()))),
                OVK::Neg(i) => Some(M::f32(exact_to_f32(&i.to_string()))),
                OVK::Float(f) => Some(M::f32(f64_to_f32_ref(*f))),
                _ => self.wrong_kind(ov, loc, &[Kind::Float, Kind::Integer, Kind::NegativeInteger], false),
            },
            Ty::F64 => match &ov.v {
                OVK::Int(i) => Some(M::f64(i.to_string().parse::<f64>().unwrap())),
                OVK::Neg(i) => Some(M::f64(i.to_string().parse::<f64>().unwrap())),
                OVK::Float(f) => Some(M::f64(*f)),
                _ => self.wrong_kind(ov, loc, &[Kind::Float, Kind::Integer, Kind::NegativeInteger], false),
            },
            Ty::Option(t) => match &ov.v {
                OVK::Null => Some(M::None),
                _ => self.go(t, ov, loc).map(|m| M::Some(Box::new(m))),
            },
            Ty::Boxed(t) => self.go(t, ov, loc),
            Ty::Phantom => {
                // the content of the node is never examined
                let mut ids = BTreeSet::new();
                all_ids(ov, &mut ids);
                ids.remove(&ov.id);
                self.pred.unvisited.extend(ids);
                Some(M::Phantom)
            }
            Ty::Vec(t) | Ty::HashSet(t) | Ty::BTreeSet(t) => match &ov.v {
                OVK::Seq(s) => {
                    let mut out = vec![];
                    let mut ok = true;
                    for (i, x) in s.iter().enumerate() {
                        self.pred.visited.insert(x.id);
                        loc.push(Step::Index(i));
                        match self.go(t, x, loc) {
                            Some(m) => out.push(m),
                            None => ok = false,
                        }
                        loc.pop();
                    }
                    if !ok {
                        None
                    } else if matches!(ty, Ty::Vec(_)) {
                        Some(M::Seq(out))
                    } else {
                        Some(M::set(out))
                    }
                }
                _ => self.wrong_kind(ov, loc, &[Kind::Sequence], true),
            },
            Ty::Array(_, _) | Ty::Tuple(_) => match &ov.v {
                OVK::Seq(s) => {
                    let tys: Vec<Ty> = match ty {
                        Ty::Array(t, n) => vec![(**t).clone(); *n],
                        Ty::Tuple(ts) => ts.clone(),
                        _ => unreachable!(),
                    };
                    if s.len() != tys.len() {
                        self.report(loc, PKind::BadSequenceLen { actual: pv_of(ov), expected: tys.len() }, true);
                        return None;
                    }
                    let mut out = vec![];
                    let mut ok = true;
                    for (i, (x, t)) in s.iter().zip(tys.iter()).enumerate() {
                        self.pred.visited.insert(x.id);
                        loc.push(Step::Index(i));
                        match self.go(t, x, loc) {
                            Some(m) => out.push(m),
                            None => ok = false,
                        }
                        loc.pop();
                    }
                    if ok {
                        Some(M::Seq(out))
                    } else {
                        None
                    }
                }
                _ => self.wrong_kind(ov, loc, &[Kind::Sequence], true),
            },
            Ty::Map { key, val, .. } => match &ov.v {
                OVK::Map(m) => {
                    let mut out: Vec<(M, M)> = vec![];
                    let mut ok = true;
                    for (k, x) in m {
                        match key.parse(k) {
                            None => {
                                self.report(
                                    loc,
                                    PKind::Unexpected {
                                        // "naming that key": raw, or in Rust / JSON escaped form
                                        must_contain: vec![],
                                        any_of: vec![k.clone(), format!("{k:?}").trim_matches('"').to_string(), serde_json::to_string(k).unwrap_or_default().trim_matches('"').to_string()],
                                        any_of2: vec![],
                                        why: "unparsable map key",
                                    },
                                    false,
                                );
                                self.pred.unvisited.insert(x.id);
                                ok = false;
                            }
                            Some(pk) => {
                                self.pred.visited.insert(x.id);
                                loc.push(Step::Key(k.clone()));
                                match self.go(val, x, loc) {
                                    Some(v) => {
                                        // later entry wins for an equal parsed key
                                        out.retain(|(kk, _)| *kk != pk);
                                        out.push((pk, v));
                                    }
                                    None => ok = false,
                                }
                                loc.pop();
                            }
                        }
                    }
                    if ok {
                        Some(M::map(out))
                    } else {
                        None
                    }
                }
                _ => self.wrong_kind(ov, loc, &[Kind::Map], true),
            },
            Ty::Cs(k) => match &ov.v {
                OVK::Str(s) => {
                    let mut out = vec![];
                    for seg in s.split(',').filter(|x| !x.is_empty()) {
                        match k.parse(seg) {
                            Some(m) => out.push(m),
                            None => {
                                self.report(
                                    loc,
                                    PKind::Unexpected { must_contain: vec![], any_of: vec![], any_of2: vec![], why: "unparsable CS segment" },
                                    false,
                                );
                                return None;
                            }
                        }
                    }
                    Some(M::Seq(out))
                }
                _ => self.wrong_kind(ov, loc, &[Kind::String], false),
            },
            Ty::Json => {
                let before = self.pred.reports.len();
                self.go_json(ov, loc);
                if self.pred.reports.len() == before {
                    Some(M::Json(serde_json::to_string(&pv_of(ov).to_json().unwrap()).unwrap()))
                } else {
                    None
                }
            }
            Ty::Struct(st) => match &ov.v {
                OVK::Map(m) => {
                    let entries: Vec<&(String, OV)> = m.iter().collect();
                    let v = self.go_fields(&st.fields, &st.deny, &entries, loc, |fields| M::Struct {
                        name: st.name.clone(),
                        fields,
                    });
                    self.validate(st.validate, v, loc)
                }
                _ => self.wrong_kind(ov, loc, &[Kind::Map], true),
            },
            Ty::TaggedEnum(en) => match &ov.v {
                OVK::Map(m) => {
                    // the first entry carrying the tag key is the tag (a Map::remove takes one entry)
                    let tag_pos = m.iter().position(|(k, _)| *k == en.tag);
                    let Some(tag_pos) = tag_pos else {
                        self.report(loc, PKind::MissingField { field: en.tag.clone() }, true);
                        return None;
                    };
                    let tagv = &m[tag_pos].1;
                    self.pred.visited.insert(tagv.id);
                    let OVK::Str(name) = &tagv.v else {
                        loc.push(Step::Key(en.tag.clone()));
                        self.report(
                            loc,
                            PKind::IncorrectValueKind {
                                actual: pv_of(tagv),
                                accepted: [Kind::String].into_iter().collect(),
                            },
                            true,
                        );
                        loc.pop();
                        return None;
                    };
                    let Some(var) = en.variants.iter().find(|v| v.key == *name) else {
                        self.report(
                            loc,
                            PKind::Unexpected { must_contain: vec![], any_of: vec![], any_of2: vec![], why: "tag names no variant" },
                            true,
                        );
                        return None;
                    };
                    let rest: Vec<&(String, OV)> =
                        m.iter().enumerate().filter(|(i, _)| *i != tag_pos).map(|(_, e)| e).collect();
                    let v = match &var.fields {
                        None => {
                            for (_, x) in &rest {
                                self.pred.unvisited.insert(x.id);
                            }
                            Some(M::Variant { name: en.name.clone(), variant: var.ident.clone(), fields: vec![] })
                        }
                        Some(fields) => self.go_fields(fields, &en.deny, &rest, loc, |fields| M::Variant {
                            name: en.name.clone(),
                            variant: var.ident.clone(),
                            fields,
                        }),
                    };
                    self.validate(en.validate, v, loc)
                }
                _ => self.wrong_kind(ov, loc, &[Kind::Map], true),
            },
            Ty::UnitEnum(en) => match &ov.v {
                OVK::Str(s) => {
                    let v = match en.variants.iter().find(|(_, key)| key == s) {
                        Some((ident, _)) => {
                            Some(M::Variant { name: en.name.clone(), variant: ident.clone(), fields: vec![] })
                        }
                        None => {
                            self.report(
                                loc,
                                PKind::UnknownValue {
                                    value: s.clone(),
                                    accepted: en.variants.iter().map(|(_, k)| k.clone()).collect(),
                                },
                                false,
                            );
                            None
                        }
                    };
                    self.validate(en.validate, v, loc)
                }
                _ => self.wrong_kind(ov, loc, &[Kind::String], false),
            },
            Ty::Via(via) => {
                let inner = self.go(&via.inner, ov, loc);
                let v = match inner {
                    None => None,
                    Some(m) => self.convert(&via.conv, m, loc),
                };
                self.validate(via.validate, v, loc)
            }
        }
    }

    fn convert(&mut self, conv: &Conv, m: M, loc: &Path) -> Option<M> {
        match conv {
            Conv::None => Some(m),
            Conv::From(id) => {
                self.pred.calls.push(PCall { id: *id, role: "from", arg: m.clone(), loc: None, ok: true });
                Some(M::Conv { via: *id, inner: Box::new(m) })
            }
            Conv::TryFrom(id) => {
                let fails = conv_fails(&m);
                self.pred.calls.push(PCall { id: *id, role: "try_from", arg: m.clone(), loc: None, ok: !fails });
                if fails {
                    self.report(loc, PKind::Foreign(ProbeData::Failed { id: *id, role: "try_from" }), false);
                    None
                } else {
                    Some(M::Conv { via: *id, inner: Box::new(m) })
                }
            }
        }
    }

    fn validate(&mut self, validate: Option<u32>, v: Option<M>, loc: &Path) -> Option<M> {
        match (validate, v) {
            (Some(id), Some(m)) => {
                let fails = validate_fails(&m);
                self.pred.calls.push(PCall {
                    id,
                    role: "validate",
                    arg: m.clone(),
                    loc: Some(loc.clone()),
                    ok: !fails,
                });
                if fails {
                    if crate::probe::is_own_error_validate(id) {
                        // the function's error type is the recording error type itself: it makes the report
                        self.report(loc, PKind::Unexpected { must_contain: vec![format!("validate#{id} ")], any_of: vec![], any_of2: vec![], why: "validate with the container's own error type" }, false);
                    } else {
                        self.report(loc, PKind::Foreign(ProbeData::Failed { id, role: "validate" }), false);
                    }
                    None
                } else {
                    Some(m)
                }
            }
            (_, v) => v,
        }
    }

    fn go_fields(
        &mut self,
        fields: &[FieldTy],
        deny: &Deny,
        entries: &[&(String, OV)],
        loc: &mut Path,
        build: impl FnOnce(Vec<(String, M)>) -> M,
    ) -> Option<M> {
        #[derive(Clone)]
        enum St {
            Missing,
            Err,
            Some(M),
        }
        let before = self.pred.reports.len();
        let mut state: Vec<St> = fields.iter().map(|_| St::Missing).collect();
        let accepted: Vec<String> = fields.iter().filter(|f| !f.skip).map(|f| f.key.clone()).collect();
        for (k, x) in entries.iter().map(|e| (&e.0, &e.1)) {
            match fields.iter().position(|f| !f.skip && f.key == *k) {
                Some(i) => {
                    let f = &fields[i];
                    self.pred.visited.insert(x.id);
                    loc.push(Step::Key(k.clone()));
                    let r = self.go(&f.src, x, loc);
                    state[i] = match r {
                        None => St::Err,
                        Some(m) => match self.convert(&f.conv, m, loc) {
                            Some(m) => St::Some(m),
                            None => St::Err,
                        },
                    };
                    loc.pop();
                }
                None => {
                    self.pred.unvisited.insert(x.id);
                    match deny {
                        Deny::No => {}
                        Deny::Default => {
                            self.report(
                                loc,
                                PKind::UnknownKey { key: k.clone(), accepted: accepted.clone() },
                                false,
                            );
                        }
                        Deny::Custom(id) => {
                            self.report(
                                loc,
                                PKind::Foreign(ProbeData::Unknown {
                                    id: *id,
                                    key: k.clone(),
                                    accepted: accepted.clone(),
                                    loc: loc.clone(),
                                }),
                                false,
                            );
                        }
                    }
                }
            }
        }
        for (i, f) in fields.iter().enumerate() {
            if f.skip || f.default.is_some() {
                continue;
            }
            if matches!(state[i], St::Missing) {
                match f.missing_fn {
                    None => self.report(loc, PKind::MissingField { field: f.key.clone() }, false),
                    Some(id) => self.report(
                        loc,
                        PKind::Foreign(ProbeData::Missing { id, key: f.key.clone(), loc: loc.clone() }),
                        false,
                    ),
                }
            }
        }
        if self.pred.reports.len() != before {
            return None;
        }
        let mut out = vec![];
        for (i, f) in fields.iter().enumerate() {
            let v = match &state[i] {
                St::Some(m) => m.clone(),
                _ => f.default.clone().expect("field without value and without default but no report"),
            };
            let v = match f.map {
                Some(id) => {
                    self.pred.calls.push(PCall { id, role: "map", arg: v.clone(), loc: None, ok: true });
                    bump_m(&v)
                }
                None => v,
            };
            out.push((f.ident.clone(), v));
        }
        Some(build(out))
    }

    fn go_json(&mut self, ov: &OV, loc: &mut Path) {
        match &ov.v {
            OVK::Float(f) if !f.is_finite() => {
                self.report(loc, PKind::Unexpected { must_contain: vec![], any_of: vec![], any_of2: vec![], why: "non-finite float into JSON" }, false);
            }
            OVK::Seq(s) => {
                for (i, x) in s.iter().enumerate() {
                    self.pred.visited.insert(x.id);
                    loc.push(Step::Index(i));
                    self.go_json(x, loc);
                    loc.pop();
                }
            }
            OVK::Map(m) => {
                for (k, x) in m {
                    self.pred.visited.insert(x.id);
                    loc.push(Step::Key(k.clone()));
                    self.go_json(x, loc);
                    loc.pop();
                }
            }
            _ => {}
        }
    }

    fn go_int(&mut self, it: &IntTy, ov: &OV, loc: &Path) -> Option<M> {
        let v: i128 = match &ov.v {
            OVK::Int(i) => *i as i128,
            OVK::Neg(i) if it.signed => *i as i128,
            _ => {
                let acc: &[Kind] = if it.signed { &[Kind::Integer, Kind::NegativeInteger] } else { &[Kind::Integer] };
                return self.wrong_kind(ov, loc, acc, false);
            }
        };
        if it.nonzero && v == 0 {
            // "a zero" and a bound of the target
            self.report(loc, PKind::Unexpected { must_contain: vec![], any_of: vec!["zero".into(), "Zero".into(), "`0`".into(), " 0".into()], any_of2: vec![it.min.to_string(), it.max.to_string(), "non-zero".into(), "nonzero".into(), "non zero".into(), "NonZero".into()], why: "zero for NonZero" }, false);
            return None;
        }
        if v >= 0 && (v as u128) > it.max {
            self.report(
                loc,
                PKind::Unexpected { must_contain: vec![v.to_string(), it.max.to_string()], any_of: vec![], any_of2: vec![], why: "integer above MAX" },
                false,
            );
            return None;
        }
        if v < it.min {
            self.report(
                loc,
                PKind::Unexpected { must_contain: vec![v.to_string(), it.min.to_string()], any_of: vec![], any_of2: vec![], why: "integer below MIN" },
                false,
            );
            return None;
        }
        Some(M::Int(v))
    }
}

/// correctly rounded f32 of a decimal integer text (independent route: std's parser)
pub fn exact_to_f32(s: &str) -> f32 {
    s.parse::<f32>().unwrap()
}

/// correctly rounded f32 of the exact value of an f64, through its exact decimal expansion
pub fn f64_to_f32_ref(f: f64) -> f32 {
    if f.is_nan() {
        return f32::NAN;
    }
    if f.is_infinite() {
        return if f > 0.0 { f32::INFINITY } else { f32::NEG_INFINITY };
    }
    // exact decimal expansion: f64 needs at most 1074 fractional digits
    let s = format!("{:.1080}", f);
    s.parse::<f32>().unwrap()
}

/// multiset comparison of predicted against observed reports.
/// Returns Err(description) on the first mismatch.
pub fn match_reports(pred: &[PReport], actual: &[(u32, &RKind, &Path)]) -> Result<(), String> {
    let (missing, extra) = diff_reports(pred, actual);
    if missing.is_empty() && extra.is_empty() {
        return Ok(());
    }
    let mut why = String::new();
    if pred.len() != actual.len() {
        why.push_str(&format!("expected {} report(s), observed {}; ", pred.len(), actual.len()));
    }
    if let Some(i) = missing.first() {
        why.push_str(&format!("predicted report has no counterpart: {:?} at {}; ", pred[*i].kind, crate::pv::path_str(&pred[*i].loc)));
    }
    if let Some(j) = extra.first() {
        why.push_str(&format!("observed report was not predicted: {} at {}", crate::trace::show_kind(actual[*j].1), crate::pv::path_str(actual[*j].2)));
    }
    Err(why)
}

/// maximum bipartite matching between predicted and observed reports; returns the indices of
/// the unmatched predicted reports and of the unmatched observed reports
pub fn diff_reports(pred: &[PReport], actual: &[(u32, &RKind, &Path)]) -> (Vec<usize>, Vec<usize>) {
    let adj: Vec<Vec<usize>> = pred
        .iter()
        .map(|p| {
            actual
                .iter()
                .enumerate()
                .filter(|(_, (_, k, l))| **l == p.loc && p.kind.matches(k))
                .map(|(j, _)| j)
                .collect()
        })
        .collect();
    let mut match_of_actual: Vec<Option<usize>> = vec![None; actual.len()];
    fn try_aug(i: usize, adj: &[Vec<usize>], seen: &mut [bool], m: &mut [Option<usize>]) -> bool {
        for &j in &adj[i] {
            if seen[j] {
                continue;
            }
            seen[j] = true;
            if m[j].is_none() || try_aug(m[j].unwrap(), adj, seen, m) {
                m[j] = Some(i);
                return true;
            }
        }
        false
    }
    let mut missing = vec![];
    for i in 0..pred.len() {
        let mut seen = vec![false; actual.len()];
        if !try_aug(i, &adj, &mut seen, &mut match_of_actual) {
            missing.push(i);
        }
    }
    let extra: Vec<usize> = (0..actual.len()).filter(|j| match_of_actual[*j].is_none()).collect();
    (missing, extra)
}
