//! Payload generation (type-directed with injected faults, and type-blind) and structural
//! shrinking.  All randomness comes from the proptest `TestRng` handed in by the runner.

use crate::pv::PV;
use crate::ty::*;
use proptest::test_runner::TestRng;
use rand::Rng;

#[derive(Clone, Debug)]
pub struct GenCfg {
    /// probability of injecting a fault at a node
    pub fault: f64,
    pub max_depth: usize,
    /// from this depth on containers hold at most one element (deep but thin payloads for recursive types)
    pub thin_from: usize,
    pub dup_keys: bool,
    pub nonfinite: bool,
    /// keys and strings restricted to [A-Za-z0-9_] (C14: unambiguous rendered paths)
    pub plain_text: bool,
    /// alternative spellings of numeric map keys ("+5", "05") that collide after parsing
    pub alt_key_spellings: bool,
    /// generate extra (unknown) keys in structs
    pub extras: bool,
    /// only the KEYS are restricted to [A-Za-z0-9_]; string values stay arbitrary
    pub plain_keys: bool,
}

impl Default for GenCfg {
    fn default() -> Self {
        GenCfg {
            fault: 0.1,
            max_depth: 6,
            thin_from: usize::MAX,
            dup_keys: false,
            nonfinite: false,
            plain_text: false,
            alt_key_spellings: false,
            extras: true,
            plain_keys: false,
        }
    }
}

pub struct Gen<'a, R: Rng = TestRng> {
    pub rng: &'a mut R,
    pub cfg: GenCfg,
    pub faults: usize,
    cur_depth: usize,
}

pub const INT_POOL: &[i128] = &[
    0, 1, 2, 3, 7, 10, 42, 76, 77, 78, 99, 100, 101, 102, 103, 126, 127, 128, 129, 254, 255, 256, 257, 32766,
    32767, 32768, 32769, 65534, 65535, 65536, 65537, 2147483646, 2147483647, 2147483648, 2147483649,
    4294967294, 4294967295, 4294967296, 4294967297, 9007199254740991, 9007199254740992, 9007199254740993,
    9223372036854775806, 9223372036854775807, 9223372036854775808, 9223372036854775809, 18446744073709551614,
    18446744073709551615, -1, -2, -77, -100, -101, -127, -128, -129, -130, -32767, -32768, -32769, -65536,
    -2147483647, -2147483648, -2147483649, -4294967296, -9007199254740993, -9223372036854775807,
    -9223372036854775808, 1000, 10000, 100000, 1000000, 10000000, 100000000, 1000000000, 10000000000, 1000000000000,
    1000000000000000, 1000000000000000000, 10000000000000000000, -1000, -1000000, -1000000000000, 999, 9999, 99999, 16777217, 16777219, -16777217, 1152921573326323713, 1152921573326323712, 1152921573326323711,
    -1152921573326323713, 9007199254740995, 18014398509481985, 36028797018963969, 9223372649179195393,
];

pub const STR_POOL: &[&str] = &[
    "", "a", "b", "ab", "abc", "bad", "!x", "!", "x", "0", "1", "-1", "255", "256", "+5", "05", "true", "null",
    "hello", "Hello", "HELLO", "é", "ß", "日本", "a\u{301}", "🥺", "a,b", "1,2,3", ",,1,,", "1,x", " ", "a b",
    "a.b", "a[0]", "`", "\"", "\\", "\n", ".a", ".", "..", "a.", "[1]", "$id", "-", " asc", "asc ", "\tx",
    "\u{1b}[31mred\u{1b}[0m", "\u{0}", "a\u{7f}b", "\r\n", "\u{feff}x", "\u{200b}",
];

pub const PLAIN_STR_POOL: &[&str] = &[
    "a", "b", "ab", "abc", "bad", "x", "0", "1", "255", "256", "05", "true", "null", "hello", "Hello", "HELLO",
    "some_key", "someKey", "somekey", "k1", "k_2", "Zz9", "the_quick_brown", "theQuickBrown",
];

pub const FLOAT_POOL: &[f64] = &[
    0.0,
    -0.0,
    0.5,
    1.0,
    -1.5,
    1e-320,
    5e-324,
    f64::MIN_POSITIVE,
    f64::MAX,
    f64::MIN,
    1e39,
    -1e39,
    3.4028234663852886e38,
    3.4028235677973366e38,
    3.402823466385289e38,
    16777217.0,
    9007199254740993.0,
    1.8446744073709552e19,
    -9.223372036854778e18,
    255.0,
    256.0,
    0.1,
    1.0000000596046448,
    1.00000005960464477539,
    1e-46,
    7.006492321624085e-46,
];

/// Source-derived dictionary (tools/mkdict.py): the integer and string literals of deserr's current sources.
pub struct Dict {
    pub ints: Vec<u64>,
    pub strs: Vec<String>,
}

pub fn dict() -> &'static Dict {
    static D: std::sync::OnceLock<Dict> = std::sync::OnceLock::new();
    D.get_or_init(|| {
        let p = crate::evidence::verif_dir().join("work").join("dict.json");
        let mut d = Dict { ints: vec![], strs: vec![] };
        if let Ok(s) = std::fs::read_to_string(p) {
            if let Ok(j) = serde_json::from_str::<serde_json::Value>(&s) {
                d.ints = j["ints"].as_array().map(|a| a.iter().filter_map(|x| x.as_u64()).collect()).unwrap_or_default();
                d.strs = j["strs"].as_array().map(|a| a.iter().filter_map(|x| x.as_str().map(|s| s.to_string())).collect()).unwrap_or_default();
            }
        }
        d
    })
}

impl<'a, R: Rng> Gen<'a, R> {
    pub fn new(rng: &'a mut R, cfg: GenCfg) -> Self {
        Gen { rng, cfg, faults: 0, cur_depth: 0 }
    }

    pub fn chance(&mut self, p: f64) -> bool {
        self.rng.random_bool(p.clamp(0.0, 1.0))
    }
    pub fn below(&mut self, n: usize) -> usize {
        if n == 0 {
            0
        } else {
            self.rng.random_range(0..n)
        }
    }
    pub fn pick<'b, T>(&mut self, xs: &'b [T]) -> &'b T {
        &xs[self.below(xs.len())]
    }
    fn fault_here(&mut self) -> bool {
        let f = self.cfg.fault;
        if f > 0.0 && self.chance(f) {
            self.faults += 1;
            true
        } else {
            false
        }
    }

    pub fn string(&mut self) -> String {
        if self.cfg.plain_text {
            if self.chance(0.7) {
                self.pick(PLAIN_STR_POOL).to_string()
            } else {
                let n = 1 + self.below(8);
                (0..n).map(|_| *self.pick(&['a', 'b', 'c', 'X', 'Y', '0', '9', '_']) ).collect()
            }
        } else if self.chance(0.03) && !dict().strs.is_empty() {
            // a string (or character) literal of deserr's own source text - as it is, as a prefix, as a suffix or in
            // the middle (conditions like starts_with / ends_with / contains on keys and values)
            let d = self.pick(&dict().strs).clone();
            match self.below(6) {
                0 => format!("{d}x1"),
                1 => format!("ab{d}"),
                2 => format!("k{d}y"),
                _ => d,
            }
        } else if self.chance(0.03) {
            let n = 20 + self.below(40);
            (0..n).map(|_| *self.pick(&['a', 'b', 'Z', '0', '_', ' ', 'é', '日'])).collect()
        } else if self.chance(0.75) {
            self.pick(STR_POOL).to_string()
        } else {
            let n = self.below(6);
            (0..n)
                .map(|_| *self.pick(&['a', 'b', 'c', 'A', 'Z', '0', '9', '_', '-', ' ', 'é', '日', '!', ',', '.']))
                .collect()
        }
    }

    /// a string used as an object key
    pub fn key_string(&mut self) -> String {
        if self.cfg.plain_keys && !self.cfg.plain_text {
            let saved = self.cfg.plain_text;
            self.cfg.plain_text = true;
            let k = self.string();
            self.cfg.plain_text = saved;
            k
        } else {
            self.string()
        }
    }
    fn keys_plain(&self) -> bool {
        self.cfg.plain_text || self.cfg.plain_keys
    }

    pub fn int_any(&mut self) -> PV {
        let c = self.below(12);
        if c == 10 {
            return self.int_midpoint();
        }
        if c == 11 {
            // a constant from deserr's own source text, or one off
            let d = dict();
            if !d.ints.is_empty() {
                let v = *self.pick(&d.ints) as i128 + [0i128, 0, 0, -1, 1][self.below(5)];
                let v = if self.chance(0.15) { -v } else { v };
                if v >= i64::MIN as i128 && v <= u64::MAX as i128 {
                    return PV::int(v);
                }
            }
            return PV::int(*self.pick(INT_POOL));
        }
        if c < 6 {
            PV::int(*self.pick(INT_POOL))
        } else if c < 8 {
            PV::int(self.rng.random_range(-300i128..300))
        } else if c == 8 {
            PV::Int(self.rng.random::<u64>())
        } else {
            let v = self.rng.random::<i64>();
            PV::int(v as i128)
        }
    }

    /// integers on, just below or just above a rounding midpoint of f32 (24 bits) / f64 (53 bits):
    /// top `m` bits random, then the half bit, then zeros or a tiny remainder
    pub fn int_midpoint(&mut self) -> PV {
        let m: u32 = if self.chance(0.6) { 24 } else { 53 };
        let len = (m + 2) + self.below((64 - m - 1) as usize) as u32; // total bit length m+2 ..= 64
        let top_mask: u64 = if m == 64 { u64::MAX } else { (1u64 << m) - 1 };
        let top = (self.rng.random::<u64>() & top_mask) | (1u64 << (m - 1));
        let shift = len - m; // number of bits below the kept mantissa (>= 2)
        let half = 1u64 << (shift - 1);
        let base = top.checked_shl(shift).unwrap_or(0);
        let v = match self.below(5) {
            0 => base | half,                                   // exact tie
            1 => base | half | 1,                               // just above the midpoint
            2 => (base | half) - 1,                             // just below
            3 => base | half | (1u64 << self.below((shift - 1).max(1) as usize)), // above, by a power of two
            _ => base | (half - 1),                             // all ones below the half bit
        };
        if self.chance(0.25) && v <= i64::MAX as u64 {
            PV::int(-(v as i128))
        } else {
            PV::Int(v)
        }
    }

    pub fn float_any(&mut self) -> PV {
        let c = self.below(10);
        let f = if c < 5 {
            *self.pick(FLOAT_POOL)
        } else if c < 7 {
            f64::from_bits(self.rng.random::<u64>())
        } else if c < 9 {
            (self.rng.random_range(-100000i64..100000) as f64) / 64.0
        } else {
            self.rng.random_range(-1000i64..1000) as f64
        };
        if f.is_finite() {
            PV::Float(f)
        } else if self.cfg.nonfinite {
            PV::Float(f)
        } else {
            PV::Float(1.5)
        }
    }

    pub fn nonfinite(&mut self) -> PV {
        PV::Float(*self.pick(&[f64::NAN, f64::INFINITY, f64::NEG_INFINITY]))
    }

    /// arbitrary JSON-shaped value
    pub fn blind(&mut self, depth: usize) -> PV {
        let c = self.below(if depth >= self.cfg.max_depth.min(4) { 12 } else { 16 });
        match c {
            0 => PV::Null,
            1 | 2 => PV::Bool(self.chance(0.5)),
            3..=5 => self.int_any(),
            6 | 7 => {
                if self.cfg.nonfinite && self.chance(0.15) {
                    self.nonfinite()
                } else {
                    self.float_any()
                }
            }
            8..=11 => PV::Str(self.string()),
            12 | 13 => {
                let n = self.below(4);
                PV::Seq((0..n).map(|_| self.blind(depth + 1)).collect())
            }
            _ => {
                let n = self.below(4);
                let mut m: Vec<(String, PV)> = vec![];
                for _ in 0..n {
                    let k = self.key_string();
                    if !self.cfg.dup_keys && m.iter().any(|(kk, _)| *kk == k) {
                        continue;
                    }
                    let v = self.blind(depth + 1);
                    m.push((k, v));
                }
                PV::Map(m)
            }
        }
    }

    /// a small value whose kind is none of `not`
    pub fn other_kind(&mut self, not: &[crate::pv::Kind]) -> PV {
        for _ in 0..50 {
            let v = self.blind(3);
            if !not.contains(&v.kind()) {
                return v;
            }
        }
        if not.contains(&crate::pv::Kind::Null) {
            PV::Bool(true)
        } else {
            PV::Null
        }
    }

    fn int_in(&mut self, it: &IntTy) -> PV {
        // boundary-biased value inside the domain
        for _ in 0..20 {
            let v = match self.below(4) {
                0 => *self.pick(INT_POOL),
                1 => self.rng.random_range(-130i128..300),
                2 => {
                    if self.chance(0.5) {
                        it.max.min(u64::MAX as u128) as i128 - self.below(2) as i128
                    } else {
                        it.min.max(i64::MIN as i128) + self.below(2) as i128
                    }
                }
                _ => self.rng.random::<i64>() as i128,
            };
            let ok = if v >= 0 { (v as u128) <= it.max } else { v >= it.min };
            if ok && !(it.nonzero && v == 0) {
                return PV::int(v);
            }
        }
        PV::Int(1)
    }

    fn int_out(&mut self, it: &IntTy) -> Option<PV> {
        let mut cands: Vec<i128> = vec![];
        if it.nonzero {
            cands.push(0);
        }
        if it.max < u64::MAX as u128 {
            cands.push(it.max as i128 + 1);
            cands.push(u64::MAX as i128);
            cands.push(it.max as i128 * 2 + 1);
        }
        if it.signed && it.min > i64::MIN as i128 {
            cands.push(it.min - 1);
            cands.push(i64::MIN as i128);
        }
        if cands.is_empty() {
            None
        } else {
            Some(PV::int(*self.pick(&cands)))
        }
    }

    fn key_for(&mut self, k: KeyTy) -> String {
        match k {
            KeyTy::Str => self.key_string(),
            KeyTy::U8 => {
                // with alternative spellings, a small range makes two spellings of one key meet in one map
                let v = if self.cfg.alt_key_spellings && self.chance(0.5) { self.below(4) } else { self.below(256) };
                if self.cfg.alt_key_spellings && self.chance(0.3) {
                    if self.chance(0.5) {
                        format!("+{v}")
                    } else {
                        format!("0{v}")
                    }
                } else {
                    v.to_string()
                }
            }
            KeyTy::I16 => (self.rng.random_range(-32768i32..32768)).to_string(),
            KeyTy::I32 => {
                if self.chance(0.5) {
                    self.rng.random_range(-5i32..6).to_string()
                } else {
                    self.rng.random::<i32>().to_string()
                }
            }
            KeyTy::Bool => self.chance(0.5).to_string(),
        }
    }

    fn bad_key_for(&mut self, k: KeyTy) -> Option<String> {
        let pool: &[&str] = match k {
            KeyTy::Str => return None,
            KeyTy::U8 => &["256", "-1", "x", "", "1.0", "0x1", " 1", "300", "abc", "1e1"],
            KeyTy::I16 => &["32768", "-32769", "x", "", "1.0", "--1"],
            KeyTy::I32 => &["2147483648", "-2147483649", "x", "", "1.5", "k1"],
            KeyTy::Bool => &["True", "1", "", "yes", "x"],
        };
        let s = self.pick(pool).to_string();
        if self.keys_plain() && (s.is_empty() || !s.chars().all(|c| c.is_ascii_alphanumeric() || c == '_')) {
            return Some("x".to_string());
        }
        Some(s)
    }

    pub fn len(&mut self) -> usize {
        if self.cur_depth >= self.cfg.thin_from {
            return if self.below(8) == 0 { 0 } else { 1 };
        }
        // now and then a long container: anything that depends on a size threshold (inline buffers,
        // fast paths, unstable sorts) needs more than a handful of elements
        if self.below(40) == 0 {
            return 8 + self.below(26);
        }
        if self.below(300) == 0 {
            return *self.pick(&[63usize, 64, 65, 100, 127, 128, 129, 255, 256, 257, 257, 300]);
        }
        if self.below(25) == 0 {
            // a length that occurs as a number in deserr's sources (size thresholds), or one off
            // (lengths up to 48 often, up to 300 now and then: 64, 128, 255, 256 are typical thresholds)
            let cap = if self.below(6) == 0 { 300 } else { 48 };
            let small: Vec<u64> = dict().ints.iter().copied().filter(|v| *v <= cap).collect();
            if !small.is_empty() {
                let v = *self.pick(&small) as usize;
                return (v + [0usize, 0, 1][self.below(3)]).saturating_sub(self.below(2));
            }
        }
        match self.below(10) {
            0 | 1 => 0,
            2 | 3 => 1,
            4 | 5 => 2,
            6 | 7 => 3,
            8 => 4,
            _ => 6,
        }
    }

    /// type-directed payload
    pub fn typed(&mut self, ty: &Ty, depth: usize) -> PV {
        if depth > self.cfg.max_depth + 4 {
            return PV::Null;
        }
        self.cur_depth = depth;
        match ty {
            Ty::Lazy(f) => {
                if depth > self.cfg.max_depth {
                    // cut recursion with a value of the right shape where possible
                    return PV::Map(vec![]);
                }
                let t = f();
                self.typed(&t, depth + 1)
            }
            Ty::Unit => {
                if self.fault_here() {
                    self.other_kind(&[crate::pv::Kind::Null])
                } else {
                    PV::Null
                }
            }
            Ty::Bool => {
                if self.fault_here() {
                    self.other_kind(&[crate::pv::Kind::Boolean])
                } else {
                    PV::Bool(self.chance(0.5))
                }
            }
            Ty::Str => {
                if self.fault_here() {
                    self.other_kind(&[crate::pv::Kind::String])
                } else {
                    PV::Str(self.string())
                }
            }
            Ty::Char => {
                if self.fault_here() {
                    if self.chance(0.5) {
                        self.other_kind(&[crate::pv::Kind::String])
                    } else if self.cfg.plain_text {
                        PV::str(self.pick::<&str>(&["ab", "abc", "xyz9"]))
                    } else {
                        PV::str(self.pick::<&str>(&["", "ab", "abc", "éé", "a\u{301}", "日本語", "🥺🥺"]))
                    }
                } else if self.cfg.plain_text {
                    PV::str(self.pick::<&str>(&["a", "Z", "0", "_"]))
                } else {
                    PV::str(self.pick::<&str>(&["a", "Z", "0", " ", "é", "日", "🥺", "\u{301}", "`"]))
                }
            }
            Ty::Int(it) => {
                if self.fault_here() {
                    if self.chance(0.5) {
                        if let Some(v) = self.int_out(it) {
                            return v;
                        }
                    }
                    let mut not = vec![crate::pv::Kind::Integer];
                    if it.signed {
                        not.push(crate::pv::Kind::NegativeInteger);
                    } else if self.chance(0.4) {
                        return PV::int(-1 - self.below(300) as i128);
                    }
                    self.other_kind(&not)
                } else {
                    self.int_in(it)
                }
            }
            Ty::F32 | Ty::F64 => {
                if self.fault_here() {
                    self.other_kind(&[
                        crate::pv::Kind::Integer,
                        crate::pv::Kind::NegativeInteger,
                        crate::pv::Kind::Float,
                    ])
                } else {
                    match self.below(4) {
                        0 => self.int_any(),
                        _ => self.float_any(),
                    }
                }
            }
            Ty::Option(t) => {
                if self.chance(0.3) {
                    PV::Null
                } else {
                    self.typed(t, depth)
                }
            }
            Ty::Boxed(t) => self.typed(t, depth),
            Ty::Phantom | Ty::Json => {
                if self.cfg.nonfinite && self.chance(0.05) {
                    self.nonfinite()
                } else if self.cfg.nonfinite && self.chance(0.12) {
                    // an object / array holding several values JSON cannot represent, among ordinary ones
                    let n = 2 + self.below(3);
                    let mut members: Vec<(String, PV)> = vec![];
                    for i in 0..n {
                        let v = if self.chance(0.6) { self.nonfinite() } else { self.blind(depth.max(2)) };
                        members.push((format!("k{i}"), v));
                    }
                    self.shuffle(&mut members);
                    if self.chance(0.7) {
                        PV::Map(members)
                    } else {
                        PV::Seq(members.into_iter().map(|x| x.1).collect())
                    }
                } else {
                    self.blind(depth.max(1))
                }
            }
            Ty::Vec(t) | Ty::HashSet(t) | Ty::BTreeSet(t) => {
                if self.fault_here() {
                    return self.other_kind(&[crate::pv::Kind::Sequence]);
                }
                let n = if depth >= self.cfg.max_depth { 0 } else { self.len() };
                let mut v: Vec<PV> = (0..n).map(|_| self.typed(t, depth + 1)).collect();
                // sets: sometimes duplicate an element
                if !matches!(ty, Ty::Vec(_)) && !v.is_empty() && self.chance(0.3) {
                    let i = self.below(v.len());
                    let x = v[i].clone();
                    let j = self.below(v.len() + 1);
                    v.insert(j, x);
                }
                PV::Seq(v)
            }
            Ty::Array(_, _) | Ty::Tuple(_) => {
                if self.fault_here() {
                    return self.other_kind(&[crate::pv::Kind::Sequence]);
                }
                let tys: Vec<Ty> = match ty {
                    Ty::Array(t, n) => vec![(**t).clone(); *n],
                    Ty::Tuple(ts) => ts.clone(),
                    _ => unreachable!(),
                };
                let mut v: Vec<PV> = tys.iter().map(|t| self.typed(t, depth + 1)).collect();
                if self.fault_here() {
                    // arity fault
                    match self.below(3) {
                        0 if !v.is_empty() => {
                            let i = self.below(v.len());
                            v.remove(i);
                        }
                        1 => {
                            let x = self.blind(depth + 1);
                            let i = self.below(v.len() + 1);
                            v.insert(i, x);
                        }
                        _ => {
                            if self.chance(0.5) {
                                v.clear();
                            } else {
                                let extra = tys.first().cloned().unwrap_or(Ty::Unit);
                                v.push(self.typed(&extra, depth + 1));
                            }
                        }
                    }
                }
                PV::Seq(v)
            }
            Ty::Map { key, val, .. } => {
                if self.fault_here() {
                    return self.other_kind(&[crate::pv::Kind::Map]);
                }
                // mostly small maps; now and then a long one (up to 20), rarely a very long one (size thresholds)
                let n = if depth >= self.cfg.max_depth { 0 } else { let l = self.len(); if l > 48 { l } else if l > 6 { l.min(20) } else { l.min(4) } };
                let mut m: Vec<(String, PV)> = vec![];
                for i in 0..n {
                    if n > 48 {
                        // very long map: distinct keys by construction, cheap values, one fault now and then
                        let k = match key {
                            KeyTy::Str => format!("k{i}"),
                            KeyTy::U8 => (i % 256).to_string(),
                            KeyTy::I16 | KeyTy::I32 => (i as i64 - 20).to_string(),
                            KeyTy::Bool => (i % 2 == 0).to_string(),
                        };
                        if !self.cfg.dup_keys && m.iter().any(|(kk, _)| *kk == k) {
                            continue;
                        }
                        let saved = self.cfg.max_depth;
                        self.cfg.max_depth = depth + 1;
                        let v = self.typed(val, depth + 1);
                        self.cfg.max_depth = saved;
                        m.push((k, v));
                        continue;
                    }
                    let k = if self.fault_here() {
                        match self.bad_key_for(*key) {
                            Some(k) => k,
                            None => {
                                self.faults -= 1;
                                self.key_for(*key)
                            }
                        }
                    } else {
                        self.key_for(*key)
                    };
                    if !self.cfg.dup_keys && m.iter().any(|(kk, _)| *kk == k) {
                        continue;
                    }
                    let v = self.typed(val, depth + 1);
                    m.push((k, v));
                }
                PV::Map(m)
            }
            Ty::Cs(k) => {
                if self.fault_here() {
                    return self.other_kind(&[crate::pv::Kind::String]);
                }
                let n = self.below(5);
                let mut segs: Vec<String> = vec![];
                for _ in 0..n {
                    if self.chance(0.15) {
                        segs.push(String::new());
                    } else if self.fault_here() {
                        match self.bad_key_for(*k) {
                            Some(s) => segs.push(s),
                            None => {
                                self.faults -= 1;
                                segs.push(self.key_for(*k).replace(',', ""))
                            }
                        }
                    } else {
                        segs.push(self.key_for(*k).replace(',', ";"));
                    }
                }
                PV::Str(segs.join(","))
            }
            Ty::Struct(st) => {
                if self.fault_here() {
                    return self.other_kind(&[crate::pv::Kind::Map]);
                }
                let mut m = self.fields(&st.fields, None, depth);
                self.shuffle(&mut m);
                PV::Map(m)
            }
            Ty::TaggedEnum(en) => {
                if self.fault_here() {
                    return self.other_kind(&[crate::pv::Kind::Map]);
                }
                let vi = self.below(en.variants.len());
                let var = &en.variants[vi];
                let mut m: Vec<(String, PV)> = match &var.fields {
                    Some(f) => self.fields(f, Some(&en.tag), depth),
                    None => {
                        if self.cfg.extras && self.chance(0.2) {
                            vec![(self.key_string(), self.blind(depth + 1))]
                        } else {
                            vec![]
                        }
                    }
                };
                m.retain(|(k, _)| *k != en.tag || self.cfg.dup_keys);
                // the tag entry
                if self.fault_here() {
                    match self.below(4) {
                        0 => {} // absent
                        1 => {
                            let v = self.other_kind(&[crate::pv::Kind::String]);
                            m.push((en.tag.clone(), v));
                        }
                        2 => {
                            let near = self.near_miss(&var.key, &var.ident);
                            m.push((en.tag.clone(), PV::Str(near)));
                        }
                        _ => {
                            // another variant's name with this variant's fields
                            let other = &en.variants[self.below(en.variants.len())];
                            m.push((en.tag.clone(), PV::Str(other.key.clone())));
                        }
                    }
                } else {
                    m.push((en.tag.clone(), PV::Str(var.key.clone())));
                }
                if self.cfg.dup_keys && self.chance(0.06) {
                    // the tag key a second time (a value source that keeps duplicate keys)
                    let v = if self.chance(0.5) { PV::Str(self.pick(&en.variants).key.clone()) } else { self.blind(depth + 1) };
                    m.push((en.tag.clone(), v));
                }
                self.shuffle(&mut m);
                PV::Map(m)
            }
            Ty::UnitEnum(en) => {
                if self.fault_here() {
                    if self.chance(0.4) {
                        return self.other_kind(&[crate::pv::Kind::String]);
                    }
                    let (ident, key) = self.pick(&en.variants).clone();
                    return PV::Str(self.near_miss(&key, &ident));
                }
                PV::Str(self.pick(&en.variants).1.clone())
            }
            Ty::Via(v) => self.typed(&v.inner, depth),
        }
    }

    pub fn near_miss(&mut self, key: &str, ident: &str) -> String {
        let mut cands: Vec<String> = vec![
            key.to_lowercase(),
            key.to_uppercase(),
            ident.to_string(),
            ident.to_lowercase(),
            format!("{key}x"),
            format!("{key} "),
            flip_first(key),
            camel(ident),
            drop_last(key),
            swap_two(key),
        ];
        // position-dependent near misses: a proper prefix, one character replaced, one character's case flipped,
        // a leading extra character, the key twice (prefix/suffix/contains-style matching would accept these)
        let cs: Vec<char> = key.chars().collect();
        if !cs.is_empty() {
            let i = self.below(cs.len());
            cands.push(cs[..i].iter().collect());
            let mut r = cs.clone();
            r[i] = if r[i] == 'q' { 'z' } else { 'q' };
            cands.push(r.into_iter().collect());
            let mut f = cs.clone();
            f[i] = if f[i].is_uppercase() { f[i].to_lowercase().next().unwrap() } else { f[i].to_uppercase().next().unwrap() };
            cands.push(f.into_iter().collect());
            cands.push(format!("_{key}"));
            cands.push(format!("{key}{key}"));
            cands.push(key.replace('_', "-"));
            cands.push(key.replace('_', ""));
            // decorated keys: array / path suffixes, and the literals of deserr's own sources around the key
            // (suffix- or prefix-stripping "features")
            cands.push(format!("{key}[]"));
            cands.push(format!("{key}[0]"));
            cands.push(format!("{key}."));
            if !dict().strs.is_empty() {
                let d = self.pick(&dict().strs).clone();
                cands.push(format!("{key}{d}"));
                cands.push(format!("{d}{key}"));
            }
        }
        cands.retain(|c| c != key);
        if self.keys_plain() {
            cands.retain(|c| !c.is_empty() && c.chars().all(|ch| ch.is_ascii_alphanumeric() || ch == '_'));
        }
        if cands.is_empty() {
            return format!("{key}_");
        }
        self.pick(&cands).clone()
    }

    fn shuffle<T>(&mut self, v: &mut Vec<T>) {
        for i in (1..v.len()).rev() {
            let j = self.below(i + 1);
            v.swap(i, j);
        }
    }

    fn fields(&mut self, fields: &[FieldTy], tag: Option<&str>, depth: usize) -> Vec<(String, PV)> {
        let mut m: Vec<(String, PV)> = vec![];
        for f in fields.iter().filter(|f| !f.skip) {
            let has_default = f.default.is_some();
            let absent = if has_default { self.chance(0.4) } else { self.fault_here() };
            if absent {
                continue;
            }
            let v = if self.fault_here() {
                if self.chance(0.5) {
                    PV::Null
                } else {
                    self.blind(depth + 1)
                }
            } else {
                self.typed(&f.src, depth + 1)
            };
            m.push((f.key.clone(), v));
            if self.cfg.dup_keys && self.chance(0.05) {
                let v2 = self.typed(&f.src, depth + 1);
                m.push((f.key.clone(), v2));
            }
        }
        if self.cfg.extras && self.chance(0.35) {
            let n = 1 + self.below(3);
            for _ in 0..n {
                let k = match self.below(6) {
                    0 | 1 if !fields.is_empty() => {
                        let f = self.pick(fields).clone();
                        if f.skip {
                            f.ident.clone()
                        } else {
                            self.near_miss(&f.key, &f.ident)
                        }
                    }
                    2 if fields.iter().any(|f| f.skip) => {
                        let sk: Vec<&FieldTy> = fields.iter().filter(|f| f.skip).collect();
                        self.pick(&sk).ident.clone()
                    }
                    3 if tag.is_some() => format!("{}x", tag.unwrap()),
                    _ => self.key_string(),
                };
                let known = fields.iter().any(|f| !f.skip && f.key == k) || tag == Some(k.as_str());
                if known || m.iter().any(|(kk, _)| *kk == k) {
                    continue;
                }
                let v = self.blind(depth + 1);
                m.push((k, v));
            }
        }
        m
    }
}

pub fn flip_first(s: &str) -> String {
    let mut cs: Vec<char> = s.chars().collect();
    if let Some(c) = cs.first_mut() {
        *c = if c.is_uppercase() { c.to_lowercase().next().unwrap() } else { c.to_uppercase().next().unwrap() };
    }
    cs.into_iter().collect()
}
pub fn drop_last(s: &str) -> String {
    let mut cs: Vec<char> = s.chars().collect();
    cs.pop();
    cs.into_iter().collect()
}
pub fn swap_two(s: &str) -> String {
    let mut cs: Vec<char> = s.chars().collect();
    if cs.len() >= 2 {
        cs.swap(0, 1);
    }
    cs.into_iter().collect()
}
/// the harness' own camelCase for identifiers in the generator's restricted domain
/// (snake_case lowercase ASCII words for fields; PascalCase words for variants)
pub fn camel(ident: &str) -> String {
    let mut out = String::new();
    if ident.contains('_') {
        for (i, w) in ident.split('_').filter(|w| !w.is_empty()).enumerate() {
            if i == 0 {
                out.push_str(&w.to_lowercase());
            } else {
                let mut cs = w.chars();
                if let Some(c) = cs.next() {
                    out.extend(c.to_uppercase());
                    out.push_str(&cs.as_str().to_lowercase());
                }
            }
        }
    } else {
        // single word or PascalCase: lower the first letter only
        let mut cs = ident.chars();
        if let Some(c) = cs.next() {
            out.extend(c.to_lowercase());
            out.push_str(cs.as_str());
        }
    }
    out
}

// ---------------------------------------------------------------------------------------
// structural shrinking of payloads

/// the `i`-th single-step reduction of `pv` (in a fixed enumeration order), if any
pub fn reduction(pv: &PV, i: usize) -> Option<PV> {
    let mut n = i;
    reduce_at(pv, &mut n)
}

fn simplest_like(pv: &PV) -> Option<PV> {
    match pv {
        PV::Null => None,
        PV::Bool(true) => Some(PV::Bool(false)),
        PV::Bool(false) => None,
        PV::Int(0) => None,
        PV::Int(_) => Some(PV::Int(0)),
        PV::Neg(-1) => None,
        PV::Neg(_) => Some(PV::Neg(-1)),
        PV::Float(f) if *f == 0.0 && f.is_sign_positive() => None,
        PV::Float(_) => Some(PV::Float(0.0)),
        PV::Str(s) if s.is_empty() => None,
        PV::Str(_) => Some(PV::Str(String::new())),
        PV::Seq(s) if s.is_empty() => None,
        PV::Seq(_) => Some(PV::Seq(vec![])),
        PV::Map(m) if m.is_empty() => None,
        PV::Map(_) => Some(PV::Map(vec![])),
    }
}

fn reduce_at(pv: &PV, n: &mut usize) -> Option<PV> {
    // candidates at this node, then recurse into children
    // (a) remove one child
    match pv {
        PV::Seq(s) => {
            if *n < s.len() {
                let mut s2 = s.clone();
                s2.remove(*n);
                return Some(PV::Seq(s2));
            }
            *n -= s.len();
        }
        PV::Map(m) => {
            if *n < m.len() {
                let mut m2 = m.clone();
                m2.remove(*n);
                return Some(PV::Map(m2));
            }
            *n -= m.len();
        }
        _ => {}
    }
    // (b) replace by the simplest value of the same kind
    if let Some(sv) = simplest_like(pv) {
        if *n == 0 {
            return Some(sv);
        }
        *n -= 1;
    }
    // (c) halve numbers / shorten strings
    match pv {
        PV::Int(i) if *i > 1 => {
            if *n == 0 {
                return Some(PV::Int(i / 2));
            }
            *n -= 1;
        }
        PV::Neg(i) if *i < -2 => {
            if *n == 0 {
                return Some(PV::Neg(i / 2));
            }
            *n -= 1;
        }
        PV::Str(s) if s.chars().count() > 1 => {
            if *n == 0 {
                let mut cs: Vec<char> = s.chars().collect();
                cs.pop();
                return Some(PV::Str(cs.into_iter().collect()));
            }
            *n -= 1;
        }
        _ => {}
    }
    // (d) recurse
    match pv {
        PV::Seq(s) => {
            for (i, x) in s.iter().enumerate() {
                if let Some(r) = reduce_at(x, n) {
                    let mut s2 = s.clone();
                    s2[i] = r;
                    return Some(PV::Seq(s2));
                }
            }
        }
        PV::Map(m) => {
            for (i, (_, x)) in m.iter().enumerate() {
                if let Some(r) = reduce_at(x, n) {
                    let mut m2 = m.clone();
                    m2[i].1 = r;
                    return Some(PV::Map(m2));
                }
            }
        }
        _ => {}
    }
    None
}
