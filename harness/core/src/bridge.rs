//! C13 oracle: the serde_json bridge is lossless and self-consistent (shared by the check and the fuzz target).

use crate::entry::panic_msg;
use crate::pv::{classify_number_text, Kind, PV};
use crate::rec::Rec;
use crate::trace::{self, Script};
use deserr::{IntoValue, Value};
use serde_json::Value as J;

pub type Viol = (String, String);

pub fn check_node(v: &J, path: &str) -> Result<(), Viol> {
    // kind without consuming == kind of the consumed view
    let k1 = Kind::from_deserr(v.kind());
    let consumed = v.clone().into_value();
    let k2 = Kind::from_deserr(consumed.kind());
    if k1 != k2 {
        return Err(("C13|kind-differs-from-consumed-kind".into(), format!("at {path}: kind() = {k1:?} but into_value().kind() = {k2:?} for {v}")));
    }
    match (v, consumed) {
        (J::Number(n), c) => {
            // classification decided independently from the printed form
            let want = classify_number_text(&n.to_string());
            let got = match c {
                Value::Integer(u) => PV::Int(u),
                Value::NegativeInteger(i) => PV::Neg(i),
                Value::Float(f) => PV::Float(f),
                _ => return Err(("C13|number-not-a-number".into(), format!("at {path}: number {n} consumed as a non-number"))),
            };
            if got != want {
                return Err((
                    format!("C13|number-misclassified|want={:?}", want.kind()),
                    format!("at {path}: serde_json holds {n} (printed form), expected {} but the bridge gave {}", want.show(), got.show()),
                ));
            }
        }
        (J::Array(a), Value::Sequence(s)) => {
            use deserr::Sequence;
            if s.len() != a.len() {
                return Err(("C13|sequence-length".into(), format!("at {path}: array of {} viewed as sequence of {}", a.len(), s.len())));
            }
            for (i, x) in a.iter().enumerate() {
                check_node(x, &format!("{path}[{i}]"))?;
            }
        }
        (J::Object(o), Value::Map(m)) => {
            use deserr::Map;
            if m.len() != o.len() {
                return Err(("C13|map-length".into(), format!("at {path}: object of {} members viewed as map of {}", o.len(), m.len())));
            }
            let keys: Vec<String> = deserr::Map::into_iter(m).map(|(k, _)| k).collect();
            let want: Vec<String> = o.keys().cloned().collect();
            if keys != want {
                return Err(("C13|map-keys".into(), format!("at {path}: keys {want:?} viewed as {keys:?}")));
            }
            for (k, x) in o {
                check_node(x, &format!("{path}.{k}"))?;
            }
        }
        (J::Null, Value::Null) | (J::Bool(_), Value::Boolean(_)) | (J::String(_), Value::String(_)) => {}
        (v, _) => return Err(("C13|shape".into(), format!("at {path}: {v} consumed as a different shape"))),
    }
    Ok(())
}

pub fn check_doc(v: &J) -> Result<(), Viol> {
    let text = serde_json::to_string(v).unwrap();
    let r = std::panic::catch_unwind(|| -> Result<(), Viol> {
        // (1) through the Deserr implementation for serde_json::Value
        trace::begin(Script::all_continue());
        let r = deserr::deserialize::<J, _, Rec<0>>(v.clone());
        let tr = trace::end();
        match r {
            Err(_) => {
                return Err((
                    "C13|deserr-for-value-failed".into(),
                    format!("deserialize::<serde_json::Value> failed on {text}: {:?}", crate::trace::show_trace(&tr)),
                ))
            }
            Ok(back) => {
                let t2 = serde_json::to_string(&back).unwrap();
                if back != *v || t2 != text {
                    return Err(("C13|deserr-for-value-changed-document".into(), format!("{text} came back as {t2}")));
                }
            }
        }
        // (2) through From<Value<V>>
        let back: J = J::from(v.clone().into_value());
        let t3 = serde_json::to_string(&back).unwrap();
        if back != *v || t3 != text {
            return Err(("C13|from-value-changed-document".into(), format!("{text} came back as {t3} through From<Value>")));
        }
        // (3),(4) per node
        check_node(v, "")
    });
    match r {
        Ok(x) => x,
        Err(p) => Err(("C13|panic".into(), format!("panicked on {text}: {}", panic_msg(p)))),
    }
}

/// the class a JSON number literal must get, decided from the literal alone
pub fn literal_class(lit: &str) -> PV {
    let floaty = lit.contains('.') || lit.contains('e') || lit.contains('E');
    if !floaty {
        if let Some(rest) = lit.strip_prefix('-') {
            if rest.chars().all(|c| c == '0') {
                return PV::Float(-0.0); // serde_json holds -0 as a float
            }
            if let Ok(i) = lit.parse::<i64>() {
                return PV::Neg(i);
            }
        } else if let Ok(u) = lit.parse::<u64>() {
            return PV::Int(u);
        }
    }
    PV::Float(lit.parse::<f64>().unwrap())
}

pub fn check_literal(lit: &str) -> Result<bool, Viol> {
    let Ok(v) = serde_json::from_str::<J>(lit) else { return Ok(false) };
    check_doc(&v)?;
    let want = literal_class(lit);
    let got = match v.clone().into_value() {
        Value::Integer(u) => PV::Int(u),
        Value::NegativeInteger(i) => PV::Neg(i),
        Value::Float(f) => PV::Float(f),
        _ => return Ok(false),
    };
    if let PV::Float(f) = want {
        if !f.is_finite() {
            return Ok(false);
        }
    }
    // class from the literal; integer values from the literal; float values are whatever
    // serde_json itself holds (its text-to-float conversion is not deserr's business)
    let want = match want {
        PV::Float(_) => PV::Float(v.as_f64().unwrap_or(f64::NAN)),
        w => w,
    };
    if got != want {
        return Err((
            format!("C13|literal-misclassified|want={:?}", want.kind()),
            format!("the literal {lit} must be {} but the bridge gave {}", want.show(), got.show()),
        ));
    }
    Ok(true)
}

