//! Differential comparison of one keep-going run against the reference interpreter.

use crate::entry::{Entry, Outcome, Src};
use crate::interp::{interp, PCall, Pred};
use crate::model::M;
use crate::pv::{path_str, PV};
use crate::trace::{reports, visits, Event, Script};

pub struct Comparison {
    pub out: Outcome,
    pub pred_value: Option<M>,
    pub pred: Pred,
    /// the payload as the source presents it (canonical for serde_json)
    pub seen: PV,
    pub reports: Result<(), String>,
    /// the same comparison against the reports HELD BY THE RETURNED ERROR (by id, with multiplicity)
    pub final_reports: Result<(), String>,
    /// unmatched predicted reports (class, location) and unmatched observed reports
    pub missing: Vec<(String, crate::pv::Path)>,
    pub extra: Vec<(String, crate::pv::Path)>,
    /// predicted reports that were made but are not held by the returned error (class, location)
    pub not_held: Vec<(String, crate::pv::Path)>,
    pub value: Result<(), String>,
    pub visits: Result<(), String>,
    pub calls: Result<(), String>,
}

pub fn compare(e: &Entry, payload: &PV, src: Src) -> Comparison {
    let seen = match src {
        Src::Ov => payload.clone(),
        Src::Json => payload.canonical().expect("payload not representable in serde_json"),
    };
    let (pv, pred) = interp(&e.ty, &seen);
    let out = (e.rec)(payload, src, &Script::all_continue());
    let actual = reports(&out.trace);
    let rep = crate::interp::match_reports(&pred.reports, &actual).map_err(|why| {
        format!(
            "{why}; predicted: [{}]; observed: [{}]",
            pred.reports.iter().map(|p| format!("{:?} at {}", p.kind, path_str(&p.loc))).collect::<Vec<_>>().join("; "),
            actual.iter().map(|(_, k, l)| format!("{} at {}", crate::trace::show_kind(k), path_str(l))).collect::<Vec<_>>().join("; ")
        )
    });
    // what the final error holds
    let held: Vec<(u32, &crate::trace::RKind, &crate::pv::Path)> = match &out.result {
        Ok(_) => vec![],
        Err(ids) => ids.iter().filter_map(|i| actual.iter().find(|(id, _, _)| id == i).copied()).collect(),
    };
    let final_rep = if out.panicked.is_some() {
        Ok(())
    } else {
        crate::interp::match_reports(&pred.reports, &held).map_err(|why| {
            format!(
                "the returned error does not hold exactly one report per predicted fault: {why}; predicted: [{}]; held by the returned error: [{}]; result: {}",
                pred.reports.iter().map(|p| format!("{:?} at {}", p.kind, path_str(&p.loc))).collect::<Vec<_>>().join("; "),
                held.iter().map(|(_, k, l)| format!("{} at {}", crate::trace::show_kind(k), path_str(l))).collect::<Vec<_>>().join("; "),
                if out.result.is_ok() { "Ok" } else { "Err" }
            )
        })
    };
    let (mi, ex) = crate::interp::diff_reports(&pred.reports, &actual);
    let class_p = |k: &crate::interp::PKind| match k {
        crate::interp::PKind::Foreign(crate::trace::ProbeData::Missing { .. }) => "Foreign:Missing".to_string(),
        crate::interp::PKind::Foreign(crate::trace::ProbeData::Unknown { .. }) => "Foreign:Unknown".to_string(),
        crate::interp::PKind::Foreign(crate::trace::ProbeData::Failed { role, .. }) => format!("Foreign:{role}"),
        k => k.class().to_string(),
    };
    let class_r = |k: &crate::trace::RKind| match k {
        crate::trace::RKind::Foreign(crate::trace::ProbeData::Missing { .. }) => "Foreign:Missing".to_string(),
        crate::trace::RKind::Foreign(crate::trace::ProbeData::Unknown { .. }) => "Foreign:Unknown".to_string(),
        crate::trace::RKind::Foreign(crate::trace::ProbeData::Failed { role, .. }) => format!("Foreign:{role}"),
        k => k.class().to_string(),
    };
    let missing: Vec<(String, crate::pv::Path)> = mi.iter().map(|i| (class_p(&pred.reports[*i].kind), pred.reports[*i].loc.clone())).collect();
    let extra: Vec<(String, crate::pv::Path)> = ex.iter().map(|j| (class_r(actual[*j].1), actual[*j].2.clone())).collect();
    let not_held: Vec<(String, crate::pv::Path)> = if out.panicked.is_some() {
        vec![]
    } else {
        let (hm, _) = crate::interp::diff_reports(&pred.reports, &held);
        hm.iter().filter(|i| !mi.contains(i)).map(|i| (class_p(&pred.reports[*i].kind), pred.reports[*i].loc.clone())).collect()
    };
    let value = match (&pv, &out.result) {
        (Some(m), Ok(a)) => {
            if m == a {
                Ok(())
            } else {
                Err(format!("expected value {} but got {}", m.show(), a.show()))
            }
        }
        (Some(m), Err(_)) => Err(format!("expected Ok({}) but the call failed", m.show())),
        (None, Ok(a)) => Err(format!("expected the call to fail but got Ok({})", a.show())),
        (None, Err(_)) => Ok(()),
    };
    let vis = if src == Src::Ov {
        let seen_nodes: std::collections::BTreeSet<u32> = visits(&out.trace).into_iter().collect();
        let paths = crate::pv::node_paths(&seen);
        let p = |n: &u32| paths.get(*n as usize).map(|p| path_str(p)).unwrap_or_default();
        if let Some(n) = pred.visited.iter().find(|n| !seen_nodes.contains(n)) {
            Err(format!("not-examined: payload node {} was never examined", p(n)))
        } else if let Some(n) = pred.unvisited.iter().find(|n| seen_nodes.contains(n)) {
            Err(format!("examined-but-must-not: payload node {} was examined although it must be ignored", p(n)))
        } else {
            Ok(())
        }
    } else {
        Ok(())
    };
    let mut actual_calls: Vec<PCall> = out
        .trace
        .iter()
        .filter_map(|ev| match ev {
            Event::UserFn { id, role, arg, loc, ok } => Some(PCall { id: *id, role, arg: arg.clone(), loc: loc.clone(), ok: *ok }),
            _ => None,
        })
        .collect();
    let mut want_calls = pred.calls.clone();
    let key = |c: &PCall| (c.id, c.role, c.arg.clone(), c.loc.clone(), c.ok);
    actual_calls.sort_by_key(key);
    want_calls.sort_by_key(key);
    let calls = if actual_calls == want_calls {
        Ok(())
    } else {
        let show = |v: &[PCall]| {
            v.iter()
                .map(|c| format!("{}#{}({}){}", c.role, c.id, c.arg.show(), c.loc.as_ref().map(|l| format!("@{}", path_str(l))).unwrap_or_default()))
                .collect::<Vec<_>>()
                .join(", ")
        };
        // name the first difference
        let extra = actual_calls.iter().find(|c| actual_calls.iter().filter(|x| x == c).count() > want_calls.iter().filter(|x| x == c).count());
        let missing = want_calls.iter().find(|c| want_calls.iter().filter(|x| x == c).count() > actual_calls.iter().filter(|x| x == c).count());
        Err(format!(
            "user-function calls differ{}{}; expected [{}]; observed [{}]",
            extra.map(|c| format!("; unexpected call {}#{}({})", c.role, c.id, c.arg.show())).unwrap_or_default(),
            missing.map(|c| format!("; missing call {}#{}({})", c.role, c.id, c.arg.show())).unwrap_or_default(),
            show(&want_calls),
            show(&actual_calls)
        ))
    };
    Comparison { out, pred_value: pv, pred, seen, reports: rep, final_reports: final_rep, missing, extra, not_held, value, visits: vis, calls }
}
