//! `Ty`: descriptors of target types, and `Described` computing them for std types.

use crate::model::M;
use std::collections::{BTreeMap, BTreeSet, HashMap, HashSet};
use std::marker::PhantomData;
use std::num::*;
use std::sync::Arc;

#[derive(Clone, Debug, PartialEq)]
pub struct IntTy {
    pub name: &'static str,
    pub signed: bool,
    pub nonzero: bool,
    pub min: i128,
    pub max: u128,
}

#[derive(Clone, Copy, Debug, PartialEq, Eq)]
pub enum KeyTy {
    Str,
    U8,
    I16,
    I32,
    Bool,
}

impl KeyTy {
    /// parsed form of a string key / CS segment, by std's own FromStr
    pub fn parse(&self, s: &str) -> Option<M> {
        match self {
            KeyTy::Str => Some(M::Str(s.to_string())),
            KeyTy::U8 => s.parse::<u8>().ok().map(|x| M::Int(x as i128)),
            KeyTy::I16 => s.parse::<i16>().ok().map(|x| M::Int(x as i128)),
            KeyTy::I32 => s.parse::<i32>().ok().map(|x| M::Int(x as i128)),
            KeyTy::Bool => s.parse::<bool>().ok().map(M::Bool),
        }
    }
    pub fn rust(&self) -> &'static str {
        match self {
            KeyTy::Str => "String",
            KeyTy::U8 => "u8",
            KeyTy::I16 => "i16",
            KeyTy::I32 => "i32",
            KeyTy::Bool => "bool",
        }
    }
}

#[derive(Clone, Debug, PartialEq)]
pub enum Ty {
    Unit,
    Bool,
    Char,
    Str,
    Int(IntTy),
    F32,
    F64,
    Vec(Box<Ty>),
    Array(Box<Ty>, usize),
    Tuple(Vec<Ty>),
    HashSet(Box<Ty>),
    BTreeSet(Box<Ty>),
    Map { key: KeyTy, val: Box<Ty>, hash: bool },
    Option(Box<Ty>),
    Boxed(Box<Ty>),
    Cs(KeyTy),
    Phantom,
    Json,
    Struct(Arc<StructTy>),
    TaggedEnum(Arc<EnumTy>),
    UnitEnum(Arc<UnitEnumTy>),
    Via(Arc<ViaTy>),
    /// recursion point (hand-written recursive types)
    Lazy(fn() -> Ty),
}

#[derive(Clone, Debug, PartialEq)]
pub enum Conv {
    None,
    From(u32),
    TryFrom(u32),
}

#[derive(Clone, Debug, PartialEq)]
pub enum Deny {
    No,
    Default,
    Custom(u32),
}

#[derive(Clone, Debug, PartialEq)]
pub struct FieldTy {
    pub ident: String,
    /// effective key, computed by the harness' own implementation of the documented rule
    pub key: String,
    pub skip: bool,
    /// model of the default value (of the declared field type), if the field has one
    /// (explicit `default`, `default = expr`, or implied by `skip`)
    pub default: Option<M>,
    /// the type read from the payload (the from/try_from source type, else the field type)
    pub src: Ty,
    pub conv: Conv,
    pub map: Option<u32>,
    pub missing_fn: Option<u32>,
    /// tag of the field-level error type (0 = the container's)
    pub err_tag: u8,
}

#[derive(Clone, Debug, PartialEq)]
pub struct StructTy {
    pub name: String,
    pub fields: Vec<FieldTy>,
    pub deny: Deny,
    pub validate: Option<u32>,
}

#[derive(Clone, Debug, PartialEq)]
pub struct VariantTy {
    pub ident: String,
    pub key: String,
    /// None = unit variant
    pub fields: Option<Vec<FieldTy>>,
}

#[derive(Clone, Debug, PartialEq)]
pub struct EnumTy {
    pub name: String,
    pub tag: String,
    pub variants: Vec<VariantTy>,
    pub deny: Deny,
    pub validate: Option<u32>,
}

#[derive(Clone, Debug, PartialEq)]
pub struct UnitEnumTy {
    pub name: String,
    pub variants: Vec<(String, String)>,
    pub validate: Option<u32>,
}

#[derive(Clone, Debug, PartialEq)]
pub struct ViaTy {
    pub name: String,
    pub inner: Ty,
    pub conv: Conv,
    pub validate: Option<u32>,
}

impl Ty {
    pub fn resolve(&self) -> Ty {
        match self {
            Ty::Lazy(f) => f().resolve(),
            t => t.clone(),
        }
    }

    /// short constructor name, used in known-finding signatures and class labels
    pub fn ctor(&self) -> &'static str {
        match self {
            Ty::Unit => "()",
            Ty::Bool => "bool",
            Ty::Char => "char",
            Ty::Str => "String",
            Ty::Int(_) => "int",
            Ty::F32 | Ty::F64 => "float",
            Ty::Vec(_) => "Vec",
            Ty::Array(..) => "[T;N]",
            Ty::Tuple(_) => "tuple",
            Ty::HashSet(_) => "HashSet",
            Ty::BTreeSet(_) => "BTreeSet",
            Ty::Map { hash: true, .. } => "HashMap",
            Ty::Map { hash: false, .. } => "BTreeMap",
            Ty::Option(_) => "Option",
            Ty::Boxed(_) => "Box",
            Ty::Cs(_) => "CS",
            Ty::Phantom => "PhantomData",
            Ty::Json => "serde_json::Value",
            Ty::Struct(_) => "struct",
            Ty::TaggedEnum(_) => "tagged-enum",
            Ty::UnitEnum(_) => "unit-enum",
            Ty::Via(_) => "via",
            Ty::Lazy(_) => "lazy",
        }
    }

    pub fn rust(&self) -> String {
        match self {
            Ty::Unit => "()".into(),
            Ty::Bool => "bool".into(),
            Ty::Char => "char".into(),
            Ty::Str => "String".into(),
            Ty::Int(i) => i.name.into(),
            Ty::F32 => "f32".into(),
            Ty::F64 => "f64".into(),
            Ty::Vec(t) => format!("Vec<{}>", t.rust()),
            Ty::Array(t, n) => format!("[{}; {n}]", t.rust()),
            Ty::Tuple(ts) => format!("({})", ts.iter().map(|t| t.rust()).collect::<Vec<_>>().join(", ")),
            Ty::HashSet(t) => format!("HashSet<{}>", t.rust()),
            Ty::BTreeSet(t) => format!("BTreeSet<{}>", t.rust()),
            Ty::Map { key, val, hash } => {
                format!("{}<{}, {}>", if *hash { "HashMap" } else { "BTreeMap" }, key.rust(), val.rust())
            }
            Ty::Option(t) => format!("Option<{}>", t.rust()),
            Ty::Boxed(t) => format!("Box<{}>", t.rust()),
            Ty::Cs(k) => format!("CS<{}>", k.rust()),
            Ty::Phantom => "PhantomData<u8>".into(),
            Ty::Json => "serde_json::Value".into(),
            Ty::Struct(s) => s.name.clone(),
            Ty::TaggedEnum(s) => s.name.clone(),
            Ty::UnitEnum(s) => s.name.clone(),
            Ty::Via(s) => s.name.clone(),
            Ty::Lazy(f) => f().rust(),
        }
    }

    /// does any derived struct/enum occur in this type
    pub fn has_derived(&self) -> bool {
        match self {
            Ty::Struct(_) | Ty::TaggedEnum(_) | Ty::UnitEnum(_) | Ty::Via(_) | Ty::Lazy(_) => true,
            Ty::Vec(t) | Ty::Array(t, _) | Ty::HashSet(t) | Ty::BTreeSet(t) | Ty::Option(t) | Ty::Boxed(t) => {
                t.has_derived()
            }
            Ty::Map { val, .. } => val.has_derived(),
            Ty::Tuple(ts) => ts.iter().any(|t| t.has_derived()),
            _ => false,
        }
    }
}

pub trait Described {
    fn ty() -> Ty;
}

macro_rules! int_desc {
    ($($t:ty, $signed:expr, $nz:expr, $base:ty);*) => {$(
        impl Described for $t {
            fn ty() -> Ty {
                Ty::Int(IntTy { name: stringify!($t), signed: $signed, nonzero: $nz, min: <$base>::MIN as i128, max: <$base>::MAX as u128 })
            }
        }
    )*};
}
int_desc!(
    u8, false, false, u8; u16, false, false, u16; u32, false, false, u32; u64, false, false, u64;
    u128, false, false, u128; usize, false, false, usize;
    i8, true, false, i8; i16, true, false, i16; i32, true, false, i32; i64, true, false, i64;
    i128, true, false, i128; isize, true, false, isize;
    NonZeroU8, false, true, u8; NonZeroU16, false, true, u16; NonZeroU32, false, true, u32;
    NonZeroU64, false, true, u64; NonZeroU128, false, true, u128; NonZeroUsize, false, true, usize;
    NonZeroI8, true, true, i8; NonZeroI16, true, true, i16; NonZeroI32, true, true, i32;
    NonZeroI64, true, true, i64; NonZeroI128, true, true, i128; NonZeroIsize, true, true, isize
);

impl Described for () {
    fn ty() -> Ty {
        Ty::Unit
    }
}
impl Described for bool {
    fn ty() -> Ty {
        Ty::Bool
    }
}
impl Described for char {
    fn ty() -> Ty {
        Ty::Char
    }
}
impl Described for String {
    fn ty() -> Ty {
        Ty::Str
    }
}
impl Described for f32 {
    fn ty() -> Ty {
        Ty::F32
    }
}
impl Described for f64 {
    fn ty() -> Ty {
        Ty::F64
    }
}
impl<T: Described> Described for Vec<T> {
    fn ty() -> Ty {
        Ty::Vec(Box::new(T::ty()))
    }
}
impl<T: Described, const N: usize> Described for [T; N] {
    fn ty() -> Ty {
        Ty::Array(Box::new(T::ty()), N)
    }
}
impl<A: Described, B: Described> Described for (A, B) {
    fn ty() -> Ty {
        Ty::Tuple(vec![A::ty(), B::ty()])
    }
}
impl<A: Described, B: Described, C: Described> Described for (A, B, C) {
    fn ty() -> Ty {
        Ty::Tuple(vec![A::ty(), B::ty(), C::ty()])
    }
}
impl<T: Described> Described for HashSet<T> {
    fn ty() -> Ty {
        Ty::HashSet(Box::new(T::ty()))
    }
}
impl<T: Described> Described for BTreeSet<T> {
    fn ty() -> Ty {
        Ty::BTreeSet(Box::new(T::ty()))
    }
}
pub trait KeyDescribed {
    fn key_ty() -> KeyTy;
}
impl KeyDescribed for String {
    fn key_ty() -> KeyTy {
        KeyTy::Str
    }
}
impl KeyDescribed for u8 {
    fn key_ty() -> KeyTy {
        KeyTy::U8
    }
}
impl KeyDescribed for i16 {
    fn key_ty() -> KeyTy {
        KeyTy::I16
    }
}
impl KeyDescribed for i32 {
    fn key_ty() -> KeyTy {
        KeyTy::I32
    }
}
impl KeyDescribed for bool {
    fn key_ty() -> KeyTy {
        KeyTy::Bool
    }
}
impl<K: KeyDescribed, T: Described> Described for HashMap<K, T> {
    fn ty() -> Ty {
        Ty::Map { key: K::key_ty(), val: Box::new(T::ty()), hash: true }
    }
}
impl<K: KeyDescribed, T: Described> Described for BTreeMap<K, T> {
    fn ty() -> Ty {
        Ty::Map { key: K::key_ty(), val: Box::new(T::ty()), hash: false }
    }
}
impl<T: Described> Described for Option<T> {
    fn ty() -> Ty {
        Ty::Option(Box::new(T::ty()))
    }
}
impl<T: Described> Described for Box<T> {
    fn ty() -> Ty {
        Ty::Boxed(Box::new(T::ty()))
    }
}
impl<T> Described for PhantomData<T> {
    fn ty() -> Ty {
        Ty::Phantom
    }
}
impl Described for serde_json::Value {
    fn ty() -> Ty {
        Ty::Json
    }
}
impl<R: KeyDescribed> Described for serde_cs::vec::CS<R> {
    fn ty() -> Ty {
        Ty::Cs(R::key_ty())
    }
}
