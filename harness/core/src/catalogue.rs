//! Hand-written catalogue: std scalars and containers, and hand-written derived types that
//! mirror the documented usage.  (Randomly generated derive inputs live in `dv_generated`.)

use crate::entry::Entry;
use crate::model::{ToModel, M};
use crate::probe;
use crate::rec::{ProbeErr, Rec};
use crate::std_entry;
use crate::ty::*;
use deserr::{DeserializeError, Deserr, ErrorKind, ValuePointerRef};
use serde_cs::vec::CS;
use std::collections::{BTreeMap, BTreeSet, HashMap, HashSet};
use std::convert::Infallible;
use std::marker::PhantomData;
use std::num::*;
use std::sync::Arc;

pub fn scalar_entries() -> Vec<Entry> {
    vec![
        std_entry!(()),
        std_entry!(bool),
        std_entry!(char),
        std_entry!(String),
        std_entry!(u8),
        std_entry!(u16),
        std_entry!(u32),
        std_entry!(u64),
        std_entry!(u128),
        std_entry!(usize),
        std_entry!(i8),
        std_entry!(i16),
        std_entry!(i32),
        std_entry!(i64),
        std_entry!(i128),
        std_entry!(isize),
        std_entry!(NonZeroU8),
        std_entry!(NonZeroU16),
        std_entry!(NonZeroU32),
        std_entry!(NonZeroU64),
        std_entry!(NonZeroU128),
        std_entry!(NonZeroUsize),
        std_entry!(NonZeroI8),
        std_entry!(NonZeroI16),
        std_entry!(NonZeroI32),
        std_entry!(NonZeroI64),
        std_entry!(NonZeroI128),
        std_entry!(NonZeroIsize),
        std_entry!(f32),
        std_entry!(f64),
    ]
}

pub fn container_entries() -> Vec<Entry> {
    vec![
        std_entry!(Vec<u8>),
        std_entry!(Vec<String>),
        std_entry!(Vec<Option<u8>>),
        std_entry!(Vec<Vec<u8>>),
        std_entry!(Vec<(u8, String)>),
        std_entry!(Vec<f32>),
        std_entry!(Vec<i64>),
        std_entry!(Vec<NonZeroU8>),
        std_entry!(Vec<char>),
        std_entry!([u8; 0]),
        std_entry!([u8; 1]),
        std_entry!([u8; 2]),
        std_entry!([u8; 3]),
        std_entry!([u8; 5]),
        std_entry!([String; 2]),
        std_entry!([Option<i8>; 3]),
        std_entry!([Vec<u8>; 2]),
        std_entry!([[u8; 2]; 2]),
        std_entry!([Point; 3]),
        std_entry!((u8, String)),
        std_entry!((bool, i16, char)),
        std_entry!((Vec<u8>, Option<String>)),
        std_entry!(((u8, u8), [u8; 2], Vec<u8>)),
        std_entry!((f64, f32)),
        std_entry!((Point, Color)),
        std_entry!(HashSet<u8>),
        std_entry!(HashSet<String>),
        std_entry!(BTreeSet<i16>),
        std_entry!(BTreeSet<String>),
        std_entry!(BTreeSet<(u8, bool)>),
        std_entry!(HashSet<Option<u8>>),
        std_entry!(HashMap<String, u8>),
        std_entry!(HashMap<u8, String>),
        std_entry!(HashMap<String, (u8, u8)>),
        std_entry!(HashMap<i32, Vec<u8>>),
        std_entry!(BTreeMap<String, Vec<Option<u8>>>),
        std_entry!(BTreeMap<i32, u8>),
        std_entry!(BTreeMap<u8, u8>),
        std_entry!(BTreeMap<String, BTreeMap<String, u8>>),
        std_entry!(BTreeMap<String, Point>),
        std_entry!(BTreeMap<bool, u8>),
        std_entry!(Option<u8>),
        std_entry!(Option<Option<u8>>),
        std_entry!(Option<Vec<u8>>),
        std_entry!(Option<()>),
        std_entry!(Option<(u8, u8)>),
        std_entry!(Option<Point>),
        std_entry!(Vec<Option<Option<String>>>),
        std_entry!(Box<u8>),
        std_entry!(Box<Vec<String>>),
        std_entry!(Option<Box<(u8, Box<String>)>>),
        std_entry!(CS<String>),
        std_entry!(CS<u8>),
        std_entry!(CS<i16>),
        std_entry!(Vec<CS<u8>>),
        std_entry!(PhantomData<u8>),
        std_entry!(Vec<PhantomData<u8>>),
        std_entry!(serde_json::Value),
        std_entry!(Option<serde_json::Value>),
        std_entry!(Vec<serde_json::Value>),
        std_entry!(BTreeMap<String, serde_json::Value>),
        std_entry!(Vec<Point>),
        std_entry!(Vec<Shape>),
        std_entry!(Vec<Color>),
        std_entry!(HashMap<String, Vec<(u8, Option<Point>)>>),
        std_entry!(Vec<[u8; 2]>),
        std_entry!(BTreeMap<String, (u8, String)>),
        std_entry!(Option<HashMap<String, u8>>),
        std_entry!(HashMap<String, Option<Vec<u8>>>),
        std_entry!(Vec<BTreeSet<u8>>),
        std_entry!((Option<u8>, Option<u8>, Option<u8>)),
        std_entry!([(u8, String); 2]),
        std_entry!(Box<BTreeMap<u8, Box<u8>>>),
        std_entry!(Vec<(f32, i128, NonZeroU16)>),
        std_entry!(BTreeMap<i32, (bool, char)>),
    ]
}

// ---------------------------------------------------------------------------------------
// hand-written derived types

fn fld(ident: &str, key: &str, src: Ty) -> FieldTy {
    FieldTy {
        ident: ident.into(),
        key: key.into(),
        skip: false,
        default: None,
        src,
        conv: Conv::None,
        map: None,
        missing_fn: None,
        err_tag: 0,
    }
}

macro_rules! src_text {
    ($name:ident, $($tt:tt)*) => {
        $($tt)*
        pub const $name: &str = stringify!($($tt)*);
    };
}

src_text! { POINT_SRC,
#[derive(Deserr, Debug, Clone, PartialEq)]
pub struct Point {
    pub x: u8,
    pub y: i16,
}
}
impl ToModel for Point {
    fn to_model(&self) -> M {
        M::Struct { name: "Point".into(), fields: vec![("x".into(), self.x.to_model()), ("y".into(), self.y.to_model())] }
    }
}
impl Described for Point {
    fn ty() -> Ty {
        Ty::Struct(Arc::new(StructTy {
            name: "Point".into(),
            fields: vec![fld("x", "x", u8::ty()), fld("y", "y", i16::ty())],
            deny: Deny::No,
            validate: None,
        }))
    }
}

src_text! { STRICT_SRC,
#[derive(Deserr, Debug)]
#[deserr(deny_unknown_fields)]
pub struct Strict {
    pub name: String,
    #[deserr(default)]
    pub age: Option<u8>,
    pub pos: Point,
    pub tags: Vec<String>,
}
}
impl ToModel for Strict {
    fn to_model(&self) -> M {
        M::Struct {
            name: "Strict".into(),
            fields: vec![
                ("name".into(), self.name.to_model()),
                ("age".into(), self.age.to_model()),
                ("pos".into(), self.pos.to_model()),
                ("tags".into(), self.tags.to_model()),
            ],
        }
    }
}
impl Described for Strict {
    fn ty() -> Ty {
        let mut age = fld("age", "age", <Option<u8>>::ty());
        age.default = Some(M::None);
        Ty::Struct(Arc::new(StructTy {
            name: "Strict".into(),
            fields: vec![fld("name", "name", Ty::Str), age, fld("pos", "pos", Point::ty()), fld("tags", "tags", <Vec<String>>::ty())],
            deny: Deny::Default,
            validate: None,
        }))
    }
}

src_text! { CAMEL_SRC,
#[derive(Deserr, Debug)]
#[deserr(rename_all = camelCase)]
pub struct Camel {
    pub first_name: String,
    #[deserr(rename = "LAST")]
    pub last_name: String,
    #[deserr(default = 7)]
    pub lucky_number: u8,
    #[deserr(skip)]
    pub cache_value: u32,
    pub is_it_true: bool,
}
}
impl ToModel for Camel {
    fn to_model(&self) -> M {
        M::Struct {
            name: "Camel".into(),
            fields: vec![
                ("first_name".into(), self.first_name.to_model()),
                ("last_name".into(), self.last_name.to_model()),
                ("lucky_number".into(), self.lucky_number.to_model()),
                ("cache_value".into(), self.cache_value.to_model()),
                ("is_it_true".into(), self.is_it_true.to_model()),
            ],
        }
    }
}
impl Described for Camel {
    fn ty() -> Ty {
        let mut lucky = fld("lucky_number", "luckyNumber", u8::ty());
        lucky.default = Some(M::Int(7));
        let mut cache = fld("cache_value", "cacheValue", u32::ty());
        cache.skip = true;
        cache.default = Some(M::Int(0));
        Ty::Struct(Arc::new(StructTy {
            name: "Camel".into(),
            fields: vec![
                fld("first_name", "firstName", Ty::Str),
                fld("last_name", "LAST", Ty::Str),
                lucky,
                cache,
                fld("is_it_true", "isItTrue", Ty::Bool),
            ],
            deny: Deny::No,
            validate: None,
        }))
    }
}

src_text! { SHAPE_SRC,
#[derive(Deserr, Debug)]
#[deserr(tag = "type")]
pub enum Shape {
    Circle { radius: u8 },
    #[deserr(rename = "rect", rename_all = camelCase)]
    Rect { top_left: Point, bottom_right: Point },
    Empty,
    #[deserr(rename_all = lowercase)]
    Label { Text_Value: String, radius: String },
}
}
impl ToModel for Shape {
    fn to_model(&self) -> M {
        let (v, f): (&str, Vec<(String, M)>) = match self {
            Shape::Circle { radius } => ("Circle", vec![("radius".into(), radius.to_model())]),
            Shape::Rect { top_left, bottom_right } => (
                "Rect",
                vec![("top_left".into(), top_left.to_model()), ("bottom_right".into(), bottom_right.to_model())],
            ),
            Shape::Empty => ("Empty", vec![]),
            Shape::Label { Text_Value, radius } => {
                ("Label", vec![("Text_Value".into(), Text_Value.to_model()), ("radius".into(), radius.to_model())])
            }
        };
        M::Variant { name: "Shape".into(), variant: v.into(), fields: f }
    }
}
impl Described for Shape {
    fn ty() -> Ty {
        Ty::TaggedEnum(Arc::new(EnumTy {
            name: "Shape".into(),
            tag: "type".into(),
            variants: vec![
                VariantTy { ident: "Circle".into(), key: "Circle".into(), fields: Some(vec![fld("radius", "radius", u8::ty())]) },
                VariantTy {
                    ident: "Rect".into(),
                    key: "rect".into(),
                    fields: Some(vec![fld("top_left", "topLeft", Point::ty()), fld("bottom_right", "bottomRight", Point::ty())]),
                },
                VariantTy { ident: "Empty".into(), key: "Empty".into(), fields: None },
                VariantTy {
                    ident: "Label".into(),
                    key: "Label".into(),
                    fields: Some(vec![fld("Text_Value", "text_value", Ty::Str), fld("radius", "radius", Ty::Str)]),
                },
            ],
            deny: Deny::No,
            validate: None,
        }))
    }
}

src_text! { COLOR_SRC,
#[derive(Deserr, Debug, Clone, PartialEq)]
#[deserr(rename_all = lowercase)]
pub enum Color {
    Red,
    DarkBlue,
    #[deserr(rename = "GREEN")]
    Green,
}
}
impl ToModel for Color {
    fn to_model(&self) -> M {
        let v = match self {
            Color::Red => "Red",
            Color::DarkBlue => "DarkBlue",
            Color::Green => "Green",
        };
        M::Variant { name: "Color".into(), variant: v.into(), fields: vec![] }
    }
}
impl Described for Color {
    fn ty() -> Ty {
        Ty::UnitEnum(Arc::new(UnitEnumTy {
            name: "Color".into(),
            variants: vec![("Red".into(), "red".into()), ("DarkBlue".into(), "darkblue".into()), ("Green".into(), "GREEN".into())],
            validate: None,
        }))
    }
}

src_text! { TREE_SRC,
#[derive(Deserr, Debug)]
pub struct Tree {
    pub value: u8,
    pub children: Vec<Tree>,
}
}
impl ToModel for Tree {
    fn to_model(&self) -> M {
        M::Struct {
            name: "Tree".into(),
            fields: vec![("value".into(), self.value.to_model()), ("children".into(), self.children.to_model())],
        }
    }
}
impl Described for Tree {
    fn ty() -> Ty {
        Ty::Struct(Arc::new(StructTy {
            name: "Tree".into(),
            fields: vec![fld("value", "value", u8::ty()), fld("children", "children", Ty::Vec(Box::new(Ty::Lazy(Tree::ty))))],
            deny: Deny::No,
            validate: None,
        }))
    }
}

// ---- probes at field and container level (modelled) ----

src_text! { CONVS_SRC,
#[derive(Deserr, Debug)]
#[deserr(validate = probe::validate_p::<9001, Self> -> ProbeErr, deny_unknown_fields = probe::unknown_p::<9002>,
         where_predicate = __Deserr_E: deserr::MergeWithError<ProbeErr>)]
pub struct Convs {
    #[deserr(from(u64) = probe::from_p::<9003, u64>)]
    pub a: probe::Tagged<u64>,
    #[deserr(try_from(String) = probe::try_p::<9004, String> -> ProbeErr)]
    pub b: probe::Tagged<String>,
    #[deserr(try_from(&u8) = probe::try_ref_p::<9005, u8> -> ProbeErr, default)]
    pub c: probe::Tagged<u8>,
    #[deserr(map = probe::map_p::<9006, u8>, default = 40)]
    pub d: u8,
    #[deserr(missing_field_error = probe::missing_p::<9007>)]
    pub e: String,
    #[deserr(skip, map = probe::map_p::<9008, String>)]
    pub f: String,
    #[deserr(map = probe::map_p::<9009, Option<i16>>)]
    pub g: Option<i16>,
    #[deserr(missing_field_error = probe::missing_p::<9013>, default = 5)]
    pub h: u8,
    #[deserr(default, missing_field_error = probe::missing_p::<9014>, map = probe::map_p::<9015, String>)]
    pub i: String,
}
}
impl ToModel for Convs {
    fn to_model(&self) -> M {
        M::Struct {
            name: "Convs".into(),
            fields: vec![
                ("a".into(), self.a.to_model()),
                ("b".into(), self.b.to_model()),
                ("c".into(), self.c.to_model()),
                ("d".into(), self.d.to_model()),
                ("e".into(), self.e.to_model()),
                ("f".into(), self.f.to_model()),
                ("g".into(), self.g.to_model()),
                ("h".into(), self.h.to_model()),
                ("i".into(), self.i.to_model()),
            ],
        }
    }
}
impl Described for Convs {
    fn ty() -> Ty {
        let mut a = fld("a", "a", u64::ty());
        a.conv = Conv::From(9003);
        let mut b = fld("b", "b", Ty::Str);
        b.conv = Conv::TryFrom(9004);
        let mut c = fld("c", "c", u8::ty());
        c.conv = Conv::TryFrom(9005);
        c.default = Some(M::Conv { via: 0, inner: Box::new(M::Int(0)) });
        let mut d = fld("d", "d", u8::ty());
        d.map = Some(9006);
        d.default = Some(M::Int(40));
        let mut e = fld("e", "e", Ty::Str);
        e.missing_fn = Some(9007);
        let mut f = fld("f", "f", Ty::Str);
        f.skip = true;
        f.default = Some(M::Str(String::new()));
        f.map = Some(9008);
        let mut g = fld("g", "g", <Option<i16>>::ty());
        g.map = Some(9009);
        // a default wins over a custom missing-field function: the function is never called
        let mut h = fld("h", "h", u8::ty());
        h.missing_fn = Some(9013);
        h.default = Some(M::Int(5));
        let mut i = fld("i", "i", Ty::Str);
        i.missing_fn = Some(9014);
        i.default = Some(M::Str(String::new()));
        i.map = Some(9015);
        Ty::Struct(Arc::new(StructTy {
            name: "Convs".into(),
            fields: vec![a, b, c, d, e, f, g, h, i],
            deny: Deny::Custom(9002),
            validate: Some(9001),
        }))
    }
}

pub fn conv_wrapped(s: Vec<u8>) -> Wrapped {
    Wrapped(probe::from_p::<9010, Vec<u8>>(s))
}
src_text! { WRAPPED_SRC,
#[derive(Deserr, Debug)]
#[deserr(from(Vec<u8>) = conv_wrapped)]
pub struct Wrapped(pub probe::Tagged<Vec<u8>>);
}
impl ToModel for Wrapped {
    fn to_model(&self) -> M {
        self.0.to_model()
    }
}
impl Described for Wrapped {
    fn ty() -> Ty {
        Ty::Via(Arc::new(ViaTy { name: "Wrapped".into(), inner: <Vec<u8>>::ty(), conv: Conv::From(9010), validate: None }))
    }
}

pub fn conv_checked(s: &String) -> Result<Checked, ProbeErr> {
    probe::try_ref_p::<9011, String>(s).map(Checked)
}
src_text! { CHECKED_SRC,
#[derive(Deserr, Debug)]
#[deserr(try_from(&String) = conv_checked -> ProbeErr, validate = probe::validate_p::<9012, Self> -> ProbeErr,
         where_predicate = __Deserr_E: deserr::MergeWithError<ProbeErr>)]
pub struct Checked(pub probe::Tagged<String>);
}
impl ToModel for Checked {
    fn to_model(&self) -> M {
        self.0.to_model()
    }
}
impl Described for Checked {
    fn ty() -> Ty {
        Ty::Via(Arc::new(ViaTy { name: "Checked".into(), inner: Ty::Str, conv: Conv::TryFrom(9011), validate: Some(9012) }))
    }
}

src_text! { HOLDER_SRC,
#[derive(Deserr, Debug)]
#[deserr(where_predicate = __Deserr_E: deserr::MergeWithError<ProbeErr>)]
pub struct Holder {
    pub items: Vec<Checked>,
    pub w: Option<Wrapped>,
    pub by_name: BTreeMap<String, Convs>,
}
}
impl ToModel for Holder {
    fn to_model(&self) -> M {
        M::Struct {
            name: "Holder".into(),
            fields: vec![
                ("items".into(), self.items.to_model()),
                ("w".into(), self.w.to_model()),
                ("by_name".into(), self.by_name.to_model()),
            ],
        }
    }
}
impl Described for Holder {
    fn ty() -> Ty {
        Ty::Struct(Arc::new(StructTy {
            name: "Holder".into(),
            fields: vec![
                fld("items", "items", <Vec<Checked>>::ty()),
                fld("w", "w", <Option<Wrapped>>::ty()),
                fld("by_name", "by_name", <BTreeMap<String, Convs>>::ty()),
            ],
            deny: Deny::No,
            validate: None,
        }))
    }
}

// ---- field-level error type, container pinned to Rec<0> (modelled; Rec-only) ----

src_text! { PINNED_SRC,
#[derive(Deserr, Debug)]
#[deserr(error = Rec<0>, deny_unknown_fields)]
pub struct Pinned {
    pub a: u8,
    #[deserr(error = Rec<1>)]
    pub b: Vec<u8>,
    #[deserr(error = Rec<1>, try_from(String) = probe::try_p::<9020, String> -> ProbeErr)]
    pub c: probe::Tagged<String>,
    #[deserr(error = Rec<1>, default)]
    pub d: Option<Point>,
}
}
impl ToModel for Pinned {
    fn to_model(&self) -> M {
        M::Struct {
            name: "Pinned".into(),
            fields: vec![
                ("a".into(), self.a.to_model()),
                ("b".into(), self.b.to_model()),
                ("c".into(), self.c.to_model()),
                ("d".into(), self.d.to_model()),
            ],
        }
    }
}
impl Described for Pinned {
    fn ty() -> Ty {
        let mut b = fld("b", "b", <Vec<u8>>::ty());
        b.err_tag = 1;
        let mut c = fld("c", "c", Ty::Str);
        c.err_tag = 1;
        c.conv = Conv::TryFrom(9020);
        let mut d = fld("d", "d", <Option<Point>>::ty());
        d.err_tag = 1;
        d.default = Some(M::None);
        Ty::Struct(Arc::new(StructTy {
            name: "Pinned".into(),
            fields: vec![fld("a", "a", u8::ty()), b, c, d],
            deny: Deny::Default,
            validate: None,
        }))
    }
}

// ---- documented usage with generic-E user functions (not modelled: model-free checks only) ----

pub fn validate_range<E: DeserializeError>(range: Range, location: ValuePointerRef) -> Result<Range, E> {
    if range.end < range.start {
        Err(deserr::take_cf_content(E::error::<Infallible>(
            None,
            ErrorKind::Unexpected { msg: format!("`end` (`{}`) should be greater than `start` (`{}`)", range.end, range.start) },
            location,
        )))
    } else {
        Ok(range)
    }
}
pub fn need_query<E: DeserializeError>(_field_name: &str, location: ValuePointerRef) -> E {
    deserr::take_cf_content(E::error::<Infallible>(
        None,
        ErrorKind::Unexpected { msg: String::from("I really need the query field") },
        location,
    ))
}
pub fn unknown_custom<E: DeserializeError>(field: &str, accepted: &[&str], location: ValuePointerRef) -> E {
    match field {
        "doggo" => deserr::take_cf_content(E::error::<Infallible>(
            None,
            ErrorKind::Unexpected { msg: "The word is doggo, not the opposite".to_string() },
            location,
        )),
        _ => deserr::take_cf_content(E::error::<Infallible>(None, ErrorKind::UnknownKey { key: field, accepted }, location)),
    }
}

src_text! { RANGE_SRC,
#[derive(Deserr, Debug)]
#[deserr(validate = validate_range -> __Deserr_E)]
pub struct Range {
    pub start: usize,
    pub end: usize,
}
}
impl ToModel for Range {
    fn to_model(&self) -> M {
        M::Struct {
            name: "Range".into(),
            fields: vec![("start".into(), self.start.to_model()), ("end".into(), self.end.to_model())],
        }
    }
}
impl Described for Range {
    fn ty() -> Ty {
        // descriptor used for payload generation only (the validate function is not a probe)
        Ty::Struct(Arc::new(StructTy {
            name: "Range".into(),
            fields: vec![fld("start", "start", usize::ty()), fld("end", "end", usize::ty())],
            deny: Deny::No,
            validate: None,
        }))
    }
}

src_text! { SEARCH_SRC,
#[derive(Deserr, Debug)]
#[deserr(deny_unknown_fields = unknown_custom, rename_all = camelCase)]
pub struct Search {
    #[deserr(missing_field_error = need_query)]
    pub q: String,
    #[deserr(default = 20)]
    pub limit: usize,
    #[deserr(default)]
    pub attributes_to_retrieve: Option<Vec<String>>,
    pub range: Range,
    #[deserr(default)]
    pub sort: Option<CS<String>>,
}
}
impl ToModel for Search {
    fn to_model(&self) -> M {
        M::Struct {
            name: "Search".into(),
            fields: vec![
                ("q".into(), self.q.to_model()),
                ("limit".into(), self.limit.to_model()),
                ("attributes_to_retrieve".into(), self.attributes_to_retrieve.to_model()),
                ("range".into(), self.range.to_model()),
                ("sort".into(), self.sort.to_model()),
            ],
        }
    }
}
impl Described for Search {
    fn ty() -> Ty {
        let mut limit = fld("limit", "limit", usize::ty());
        limit.default = Some(M::Int(20));
        let mut attrs = fld("attributes_to_retrieve", "attributesToRetrieve", <Option<Vec<String>>>::ty());
        attrs.default = Some(M::None);
        let mut sort = fld("sort", "sort", <Option<CS<String>>>::ty());
        sort.default = Some(M::None);
        Ty::Struct(Arc::new(StructTy {
            name: "Search".into(),
            fields: vec![fld("q", "q", Ty::Str), limit, attrs, fld("range", "range", Range::ty()), sort],
            deny: Deny::No,
            validate: None,
        }))
    }
}

// ---- generics, needs_predicate, generic_param / where_predicate (modelled) ----

src_text! { PAIR_SRC,
#[derive(Deserr, Debug)]
#[deserr(deny_unknown_fields)]
pub struct Pair<T> {
    pub left: T,
    #[deserr(default)]
    pub right: Option<T>,
    #[deserr(needs_predicate)]
    pub checked: Checked,
}
}
impl<T: ToModel> ToModel for Pair<T> {
    fn to_model(&self) -> M {
        M::Struct {
            name: "Pair".into(),
            fields: vec![("left".into(), self.left.to_model()), ("right".into(), self.right.to_model()), ("checked".into(), self.checked.to_model())],
        }
    }
}
impl<T: Described> Described for Pair<T> {
    fn ty() -> Ty {
        let mut right = fld("right", "right", Ty::Option(Box::new(T::ty())));
        right.default = Some(M::None);
        Ty::Struct(Arc::new(StructTy {
            name: "Pair".into(),
            fields: vec![fld("left", "left", T::ty()), right, fld("checked", "checked", Checked::ty())],
            deny: Deny::Default,
            validate: None,
        }))
    }
}

src_text! { BOUNDED_SRC,
#[derive(Deserr, Debug)]
#[deserr(where_predicate = A: Deserr<__Deserr_E>, where_predicate = __Deserr_E: deserr::MergeWithError<ProbeErr>, rename_all = camelCase)]
pub struct Bounded<A> {
    #[deserr(missing_field_error = probe::missing_p::<9031>)]
    pub first_item: A,
    pub other_items: Vec<A>,
    #[deserr(try_from(&String) = probe::try_ref_p::<9030, String> -> ProbeErr, default)]
    pub note_text: probe::Tagged<String>,
}
}
impl<A: ToModel> ToModel for Bounded<A> {
    fn to_model(&self) -> M {
        M::Struct {
            name: "Bounded".into(),
            fields: vec![
                ("first_item".into(), self.first_item.to_model()),
                ("other_items".into(), self.other_items.to_model()),
                ("note_text".into(), self.note_text.to_model()),
            ],
        }
    }
}
impl<A: Described> Described for Bounded<A> {
    fn ty() -> Ty {
        let mut note = fld("note_text", "noteText", Ty::Str);
        note.conv = Conv::TryFrom(9030);
        note.default = Some(M::Conv { via: 0, inner: Box::new(M::Str(String::new())) });
        Ty::Struct(Arc::new(StructTy {
            name: "Bounded".into(),
            fields: vec![
                {
                    let mut f = fld("first_item", "firstItem", A::ty());
                    f.missing_fn = Some(9031);
                    f
                },
                fld("other_items", "otherItems", Ty::Vec(Box::new(A::ty()))),
                note,
            ],
            deny: Deny::No,
            validate: None,
        }))
    }
}

// ---- rename_all at enum, variant and neither level, in every order (modelled) ----

src_text! { MIXED_SRC,
#[derive(Deserr, Debug)]
#[deserr(tag = "shape_kind", rename_all = camelCase, deny_unknown_fields)]
pub enum Mixed {
    FirstOne { first_item: u8, Other_Name: bool },
    #[deserr(rename_all = camelCase)]
    SecondOne { second_item: u8 },
    ThirdOne { third_item: u8, Third_Name: String },
    #[deserr(rename_all = lowercase, rename = "4th")]
    FourthOne { Fourth_Item: u8 },
    FifthOne { fifth_item: Option<u8>, Fifth_Name: Option<bool> },
    #[deserr(rename = "six", rename_all = camelCase)]
    SixthOne { sixth_item: u8 },
    UnitOne,
}
}
impl ToModel for Mixed {
    fn to_model(&self) -> M {
        let (v, f): (&str, Vec<(String, M)>) = match self {
            Mixed::FirstOne { first_item, Other_Name } => ("FirstOne", vec![("first_item".into(), first_item.to_model()), ("Other_Name".into(), Other_Name.to_model())]),
            Mixed::SecondOne { second_item } => ("SecondOne", vec![("second_item".into(), second_item.to_model())]),
            Mixed::ThirdOne { third_item, Third_Name } => ("ThirdOne", vec![("third_item".into(), third_item.to_model()), ("Third_Name".into(), Third_Name.to_model())]),
            Mixed::FourthOne { Fourth_Item } => ("FourthOne", vec![("Fourth_Item".into(), Fourth_Item.to_model())]),
            Mixed::FifthOne { fifth_item, Fifth_Name } => ("FifthOne", vec![("fifth_item".into(), fifth_item.to_model()), ("Fifth_Name".into(), Fifth_Name.to_model())]),
            Mixed::SixthOne { sixth_item } => ("SixthOne", vec![("sixth_item".into(), sixth_item.to_model())]),
            Mixed::UnitOne => ("UnitOne", vec![]),
        };
        M::Variant { name: "Mixed".into(), variant: v.into(), fields: f }
    }
}
impl Described for Mixed {
    fn ty() -> Ty {
        // the enum's rename_all (camelCase) renames the variants only; each variant's fields follow the
        // variant's own rename_all, or keep their identifiers
        let v = |ident: &str, key: &str, fields: Vec<FieldTy>| VariantTy { ident: ident.into(), key: key.into(), fields: Some(fields) };
        Ty::TaggedEnum(Arc::new(EnumTy {
            name: "Mixed".into(),
            tag: "shape_kind".into(),
            variants: vec![
                v("FirstOne", "firstOne", vec![fld("first_item", "first_item", u8::ty()), fld("Other_Name", "Other_Name", Ty::Bool)]),
                v("SecondOne", "secondOne", vec![fld("second_item", "secondItem", u8::ty())]),
                v("ThirdOne", "thirdOne", vec![fld("third_item", "third_item", u8::ty()), fld("Third_Name", "Third_Name", Ty::Str)]),
                v("FourthOne", "4th", vec![fld("Fourth_Item", "fourth_item", u8::ty())]),
                v("FifthOne", "fifthOne", vec![fld("fifth_item", "fifth_item", <Option<u8>>::ty()), fld("Fifth_Name", "Fifth_Name", <Option<bool>>::ty())]),
                v("SixthOne", "six", vec![fld("sixth_item", "sixthItem", u8::ty())]),
                VariantTy { ident: "UnitOne".into(), key: "unitOne".into(), fields: None },
            ],
            deny: Deny::Default,
            validate: None,
        }))
    }
}

// ---- more than 20 fields with a skipped one declared early (declaration order of the accepted list) ----

src_text! { WIDE_SRC,
#[derive(Deserr, Debug)]
#[deserr(deny_unknown_fields)]
pub struct Wide {
    pub f01: u8,
    pub f02: u8,
    pub f03: u8,
    #[deserr(skip)]
    pub f04: u8,
    pub f05: u8,
    pub f06: u8,
    pub f07: u8,
    pub f08: u8,
    pub f09: u8,
    #[deserr(default)]
    pub f10: u8,
    pub f11: u8,
    pub f12: u8,
    pub f13: u8,
    pub f14: u8,
    pub f15: u8,
    pub f16: u8,
    pub f17: u8,
    #[deserr(default)]
    pub f18: u8,
    pub f19: u8,
    pub f20: u8,
    pub f21: u8,
    pub f22: u8,
    pub f23: u8,
}
}
impl ToModel for Wide {
    fn to_model(&self) -> M {
        M::Struct { name: "Wide".into(), fields: vec![("f01".into(), self.f01.to_model()), ("f02".into(), self.f02.to_model()), ("f03".into(), self.f03.to_model()), ("f04".into(), self.f04.to_model()), ("f05".into(), self.f05.to_model()), ("f06".into(), self.f06.to_model()), ("f07".into(), self.f07.to_model()), ("f08".into(), self.f08.to_model()), ("f09".into(), self.f09.to_model()), ("f10".into(), self.f10.to_model()), ("f11".into(), self.f11.to_model()), ("f12".into(), self.f12.to_model()), ("f13".into(), self.f13.to_model()), ("f14".into(), self.f14.to_model()), ("f15".into(), self.f15.to_model()), ("f16".into(), self.f16.to_model()), ("f17".into(), self.f17.to_model()), ("f18".into(), self.f18.to_model()), ("f19".into(), self.f19.to_model()), ("f20".into(), self.f20.to_model()), ("f21".into(), self.f21.to_model()), ("f22".into(), self.f22.to_model()), ("f23".into(), self.f23.to_model())] }
    }
}
impl Described for Wide {
    fn ty() -> Ty {
        Ty::Struct(Arc::new(StructTy {
            name: "Wide".into(),
            fields: vec![
                fld("f01", "f01", u8::ty()),
                fld("f02", "f02", u8::ty()),
                fld("f03", "f03", u8::ty()),
                { let mut x = fld("f04", "f04", u8::ty()); x.skip = true; x.default = Some(M::Int(0)); x },
                fld("f05", "f05", u8::ty()),
                fld("f06", "f06", u8::ty()),
                fld("f07", "f07", u8::ty()),
                fld("f08", "f08", u8::ty()),
                fld("f09", "f09", u8::ty()),
                { let mut x = fld("f10", "f10", u8::ty()); x.default = Some(M::Int(0)); x },
                fld("f11", "f11", u8::ty()),
                fld("f12", "f12", u8::ty()),
                fld("f13", "f13", u8::ty()),
                fld("f14", "f14", u8::ty()),
                fld("f15", "f15", u8::ty()),
                fld("f16", "f16", u8::ty()),
                fld("f17", "f17", u8::ty()),
                { let mut x = fld("f18", "f18", u8::ty()); x.default = Some(M::Int(0)); x },
                fld("f19", "f19", u8::ty()),
                fld("f20", "f20", u8::ty()),
                fld("f21", "f21", u8::ty()),
                fld("f22", "f22", u8::ty()),
                fld("f23", "f23", u8::ty()),
            ],
            deny: Deny::Default,
            validate: None,
        }))
    }
}

// ---- validate on enums (unit and struct-like variants, zero-field variants, only-skipped variants) ----

src_text! { JUDGED_SRC,
#[derive(Deserr, Debug)]
#[deserr(tag = "t", deny_unknown_fields, validate = probe::validate_p::<9040, Self> -> ProbeErr,
         where_predicate = __Deserr_E: deserr::MergeWithError<ProbeErr>)]
pub enum Judged {
    Plain,
    Data { v: u8, w: Option<String> },
    Empty {},
    #[deserr(rename = "hidden")]
    OnlySkipped {
        #[deserr(skip)]
        cache: u32,
    },
}
}
impl ToModel for Judged {
    fn to_model(&self) -> M {
        let (v, f): (&str, Vec<(String, M)>) = match self {
            Judged::Plain => ("Plain", vec![]),
            Judged::Data { v, w } => ("Data", vec![("v".into(), v.to_model()), ("w".into(), w.to_model())]),
            Judged::Empty {} => ("Empty", vec![]),
            Judged::OnlySkipped { cache } => ("OnlySkipped", vec![("cache".into(), cache.to_model())]),
        };
        M::Variant { name: "Judged".into(), variant: v.into(), fields: f }
    }
}
impl Described for Judged {
    fn ty() -> Ty {
        let mut cache = fld("cache", "cache", u32::ty());
        cache.skip = true;
        cache.default = Some(M::Int(0));
        Ty::TaggedEnum(Arc::new(EnumTy {
            name: "Judged".into(),
            tag: "t".into(),
            variants: vec![
                VariantTy { ident: "Plain".into(), key: "Plain".into(), fields: None },
                VariantTy { ident: "Data".into(), key: "Data".into(), fields: Some(vec![fld("v", "v", u8::ty()), fld("w", "w", <Option<String>>::ty())]) },
                VariantTy { ident: "Empty".into(), key: "Empty".into(), fields: Some(vec![]) },
                VariantTy { ident: "OnlySkipped".into(), key: "hidden".into(), fields: Some(vec![cache]) },
            ],
            deny: Deny::Default,
            validate: Some(9040),
        }))
    }
}

src_text! { LEVEL_SRC,
#[derive(Deserr, Debug, Clone, PartialEq, Eq, Hash, PartialOrd, Ord)]
#[deserr(rename_all = lowercase, validate = probe::validate_p::<9041, Self> -> ProbeErr,
         where_predicate = __Deserr_E: deserr::MergeWithError<ProbeErr>)]
pub enum Level {
    Low,
    #[deserr(rename = "bad")]
    MidWay,
    High,
}
}
impl ToModel for Level {
    fn to_model(&self) -> M {
        let v = match self {
            Level::Low => "Low",
            Level::MidWay => "MidWay",
            Level::High => "High",
        };
        M::Variant { name: "Level".into(), variant: v.into(), fields: vec![] }
    }
}
impl Described for Level {
    fn ty() -> Ty {
        Ty::UnitEnum(Arc::new(UnitEnumTy {
            name: "Level".into(),
            variants: vec![("Low".into(), "low".into()), ("MidWay".into(), "bad".into()), ("High".into(), "high".into())],
            validate: Some(9041),
        }))
    }
}

// keys whose byte length exceeds their character count, as the longest keys of their container
src_text! { INTL_SRC,
#[derive(Deserr, Debug)]
#[deserr(deny_unknown_fields)]
pub struct Intl {
    #[deserr(rename = "größe")]
    pub size: u8,
    #[deserr(rename = "名前")]
    pub name: String,
    pub id: u8,
    #[deserr(default)]
    pub ab: Option<bool>,
}
}
impl ToModel for Intl {
    fn to_model(&self) -> M {
        M::Struct {
            name: "Intl".into(),
            fields: vec![
                ("size".into(), self.size.to_model()),
                ("name".into(), self.name.to_model()),
                ("id".into(), self.id.to_model()),
                ("ab".into(), self.ab.to_model()),
            ],
        }
    }
}
impl Described for Intl {
    fn ty() -> Ty {
        let mut ab = fld("ab", "ab", <Option<bool>>::ty());
        ab.default = Some(M::None);
        Ty::Struct(Arc::new(StructTy {
            name: "Intl".into(),
            fields: vec![fld("size", "größe", <u8>::ty()), fld("name", "名前", Ty::Str), fld("id", "id", <u8>::ty()), ab],
            deny: Deny::Default,
            validate: None,
        }))
    }
}

src_text! { INTL_OPEN_SRC,
#[derive(Deserr, Debug)]
pub struct IntlOpen {
    #[deserr(rename = "é")]
    pub e: u8,
    pub x: u8,
}
}
impl ToModel for IntlOpen {
    fn to_model(&self) -> M {
        M::Struct { name: "IntlOpen".into(), fields: vec![("e".into(), self.e.to_model()), ("x".into(), self.x.to_model())] }
    }
}
impl Described for IntlOpen {
    fn ty() -> Ty {
        Ty::Struct(Arc::new(StructTy {
            name: "IntlOpen".into(),
            fields: vec![fld("e", "é", <u8>::ty()), fld("x", "x", <u8>::ty())],
            deny: Deny::No,
            validate: None,
        }))
    }
}

// plain (ASCII) renames under deny_unknown_fields: the accepted list must show the keys, not the identifiers
src_text! { PAGED_SRC,
#[derive(Deserr, Debug)]
#[deserr(deny_unknown_fields)]
pub struct Paged {
    #[deserr(rename = "q")]
    pub query: String,
    #[deserr(rename = "per_page", default = 20)]
    pub limit: u8,
    #[deserr(default)]
    pub offset: Option<u8>,
    #[deserr(rename = "sortBy", default)]
    pub sort: Option<Color>,
}
}
impl ToModel for Paged {
    fn to_model(&self) -> M {
        M::Struct {
            name: "Paged".into(),
            fields: vec![
                ("query".into(), self.query.to_model()),
                ("limit".into(), self.limit.to_model()),
                ("offset".into(), self.offset.to_model()),
                ("sort".into(), self.sort.to_model()),
            ],
        }
    }
}
impl Described for Paged {
    fn ty() -> Ty {
        let mut limit = fld("limit", "per_page", <u8>::ty());
        limit.default = Some(M::Int(20));
        let mut offset = fld("offset", "offset", <Option<u8>>::ty());
        offset.default = Some(M::None);
        let mut sort = fld("sort", "sortBy", <Option<Color>>::ty());
        sort.default = Some(M::None);
        Ty::Struct(Arc::new(StructTy {
            name: "Paged".into(),
            fields: vec![fld("query", "q", Ty::Str), limit, offset, sort],
            deny: Deny::Default,
            validate: None,
        }))
    }
}

// Option written twice, Box around Option: "None exactly for null" must hold for the field as a whole
src_text! { NESTED_OPT_SRC,
#[derive(Deserr, Debug)]
pub struct NestedOpt {
    pub a: Option<Option<u8>>,
    #[deserr(default)]
    pub b: Option<Option<String>>,
    pub c: Box<Option<bool>>,
    #[deserr(default = Some(Some(3)))]
    pub d: Option<Option<u8>>,
}
}
impl ToModel for NestedOpt {
    fn to_model(&self) -> M {
        M::Struct {
            name: "NestedOpt".into(),
            fields: vec![
                ("a".into(), self.a.to_model()),
                ("b".into(), self.b.to_model()),
                ("c".into(), self.c.to_model()),
                ("d".into(), self.d.to_model()),
            ],
        }
    }
}
impl Described for NestedOpt {
    fn ty() -> Ty {
        let mut b = fld("b", "b", <Option<Option<String>>>::ty());
        b.default = Some(M::None);
        let mut d = fld("d", "d", <Option<Option<u8>>>::ty());
        d.default = Some({
            let x: Option<Option<u8>> = Some(Some(3));
            x.to_model()
        });
        Ty::Struct(Arc::new(StructTy {
            name: "NestedOpt".into(),
            fields: vec![fld("a", "a", <Option<Option<u8>>>::ty()), b, fld("c", "c", <Box<Option<bool>>>::ty()), d],
            deny: Deny::No,
            validate: None,
        }))
    }
}

// identifiers with non-ASCII letters under both case conventions
src_text! { ACCENT_SRC,
#[derive(Deserr, Debug)]
#[deserr(rename_all = lowercase, deny_unknown_fields)]
#[allow(non_snake_case)]
pub struct Accent {
    pub Émile: u8,
    pub RadiusÅ: u8,
    pub plain: u8,
}
}
impl ToModel for Accent {
    fn to_model(&self) -> M {
        M::Struct {
            name: "Accent".into(),
            fields: vec![("Émile".into(), self.Émile.to_model()), ("RadiusÅ".into(), self.RadiusÅ.to_model()), ("plain".into(), self.plain.to_model())],
        }
    }
}
impl Described for Accent {
    fn ty() -> Ty {
        Ty::Struct(Arc::new(StructTy {
            name: "Accent".into(),
            fields: vec![fld("Émile", "émile", <u8>::ty()), fld("RadiusÅ", "radiuså", <u8>::ty()), fld("plain", "plain", <u8>::ty())],
            deny: Deny::Default,
            validate: None,
        }))
    }
}

// validate whose error type is the container's own error type (no foreign error type in between)
src_text! { SELF_JUDGED_SRC,
#[derive(Deserr, Debug)]
#[deserr(error = Rec<0>, validate = probe::validate_rec_p::<9501, Self> -> Rec<0>)]
pub struct SelfJudged {
    pub n: u8,
    #[deserr(default)]
    pub s: Option<String>,
}
}
impl ToModel for SelfJudged {
    fn to_model(&self) -> M {
        M::Struct { name: "SelfJudged".into(), fields: vec![("n".into(), self.n.to_model()), ("s".into(), self.s.to_model())] }
    }
}
impl Described for SelfJudged {
    fn ty() -> Ty {
        let mut sf = fld("s", "s", <Option<String>>::ty());
        sf.default = Some(M::None);
        Ty::Struct(Arc::new(StructTy { name: "SelfJudged".into(), fields: vec![fld("n", "n", <u8>::ty()), sf], deny: Deny::No, validate: Some(9501) }))
    }
}

// variant identifiers with non-ASCII upper-case letters under `rename_all = lowercase` (enum counterpart of `Accent`)
src_text! { SAISON_SRC,
#[derive(Deserr, Debug, Clone, PartialEq)]
#[deserr(rename_all = lowercase)]
#[allow(non_camel_case_types)]
pub enum Saison {
    Été,
    Ärger,
    Plain,
}
}
impl ToModel for Saison {
    fn to_model(&self) -> M {
        let v = match self {
            Saison::Été => "Été",
            Saison::Ärger => "Ärger",
            Saison::Plain => "Plain",
        };
        M::Variant { name: "Saison".into(), variant: v.into(), fields: vec![] }
    }
}
impl Described for Saison {
    fn ty() -> Ty {
        Ty::UnitEnum(Arc::new(UnitEnumTy {
            name: "Saison".into(),
            variants: vec![("Été".into(), "été".into()), ("Ärger".into(), "ärger".into()), ("Plain".into(), "plain".into())],
            validate: None,
        }))
    }
}

pub fn hand_entries() -> Vec<(Entry, bool)> {
    // (entry, modelled by the reference interpreter)
    vec![
        (Entry::generic::<Point>("Point", POINT_SRC, "hand"), true),
        (Entry::generic::<Strict>("Strict", STRICT_SRC, "hand"), true),
        (Entry::generic::<Camel>("Camel", CAMEL_SRC, "hand"), true),
        (Entry::generic::<Shape>("Shape", SHAPE_SRC, "hand"), true),
        (Entry::generic::<Color>("Color", COLOR_SRC, "hand"), true),
        (Entry::generic::<Tree>("Tree", TREE_SRC, "hand"), true),
        (Entry::generic::<Convs>("Convs", CONVS_SRC, "hand"), true),
        (Entry::generic::<Wrapped>("Wrapped", WRAPPED_SRC, "hand"), true),
        (Entry::generic::<Checked>("Checked", CHECKED_SRC, "hand"), true),
        (Entry::generic::<Holder>("Holder", HOLDER_SRC, "hand"), true),
        (Entry::rec_only::<Pinned>("Pinned", PINNED_SRC, "hand"), true),
        (Entry::rec_only::<SelfJudged>("SelfJudged", SELF_JUDGED_SRC, "hand"), true),
        (Entry::rec_only::<Vec<SelfJudged>>("Vec<SelfJudged>", "", "hand"), true),
        (Entry::generic::<Range>("Range", RANGE_SRC, "hand"), false),
        (Entry::generic::<Search>("Search", SEARCH_SRC, "hand"), false),
        (Entry::generic::<Vec<Strict>>("Vec<Strict>", "", "hand"), true),
        (Entry::generic::<BTreeMap<String, Shape>>("BTreeMap<String, Shape>", "", "hand"), true),
        (Entry::generic::<Option<Camel>>("Option<Camel>", "", "hand"), true),
        (Entry::generic::<(Strict, Vec<Camel>)>("(Strict, Vec<Camel>)", "", "hand"), true),
        (Entry::generic::<Vec<Search>>("Vec<Search>", "", "hand"), false),
        (Entry::generic::<Mixed>("Mixed", MIXED_SRC, "hand"), true),
        // sets whose members have a container-level validate (the member's position is observable)
        (Entry::generic::<BTreeSet<Level>>("BTreeSet<Level>", "", "hand"), true),
        (Entry::generic::<HashSet<Level>>("HashSet<Level>", "", "hand"), true),
        (Entry::generic::<NestedOpt>("NestedOpt", NESTED_OPT_SRC, "hand"), true),
        (Entry::generic::<Vec<NestedOpt>>("Vec<NestedOpt>", "", "hand"), true),
        (Entry::generic::<Option<NestedOpt>>("Option<NestedOpt>", "", "hand"), true),
        (Entry::generic::<Accent>("Accent", ACCENT_SRC, "hand"), true),
        (Entry::generic::<Paged>("Paged", PAGED_SRC, "hand"), true),
        (Entry::generic::<Vec<Paged>>("Vec<Paged>", "", "hand"), true),
        (Entry::generic::<Intl>("Intl", INTL_SRC, "hand"), true),
        (Entry::generic::<IntlOpen>("IntlOpen", INTL_OPEN_SRC, "hand"), true),
        (Entry::generic::<Vec<Intl>>("Vec<Intl>", "", "hand"), true),
        (Entry::generic::<Wide>("Wide", WIDE_SRC, "hand"), true),
        (Entry::generic::<Judged>("Judged", JUDGED_SRC, "hand"), true),
        (Entry::generic::<Vec<Judged>>("Vec<Judged>", JUDGED_SRC, "hand"), true),
        (Entry::generic::<Level>("Level", LEVEL_SRC, "hand"), true),
        (Entry::generic::<BTreeMap<String, Level>>("BTreeMap<String, Level>", LEVEL_SRC, "hand"), true),
        (Entry::generic::<Vec<Mixed>>("Vec<Mixed>", MIXED_SRC, "hand"), true),
        (Entry::generic::<Pair<u8>>("Pair<u8>", PAIR_SRC, "hand"), true),
        (Entry::generic::<Pair<Point>>("Pair<Point>", PAIR_SRC, "hand"), true),
        (Entry::generic::<Vec<Pair<String>>>("Vec<Pair<String>>", PAIR_SRC, "hand"), true),
        (Entry::generic::<Bounded<i128>>("Bounded<i128>", BOUNDED_SRC, "hand"), true),
        (Entry::generic::<Bounded<Option<Color>>>("Bounded<Option<Color>>", BOUNDED_SRC, "hand"), true),
        (Entry::generic::<Option<Option<Shape>>>("Option<Option<Shape>>", "", "hand"), true),
        (Entry::generic::<BTreeMap<i32, BTreeMap<u8, NonZeroI128>>>("BTreeMap<i32, BTreeMap<u8, NonZeroI128>>", "", "std"), true),
        (Entry::generic::<(usize, isize, u128)>("(usize, isize, u128)", "", "std"), true),
        (Entry::generic::<[Option<NonZeroU64>; 5]>("[Option<NonZeroU64>; 5]", "", "std"), true),
        (Entry::generic::<HashSet<NonZeroI16>>("HashSet<NonZeroI16>", "", "std"), true),
        (Entry::generic::<Vec<f64>>("Vec<f64>", "", "std"), true),
        (Entry::generic::<Box<Option<Box<Tree>>>>("Box<Option<Box<Tree>>>", "", "hand"), true),
        (Entry::generic::<Saison>("Saison", SAISON_SRC, "hand"), true),
        (Entry::generic::<Vec<Saison>>("Vec<Saison>", SAISON_SRC, "hand"), true),
    ]
}

/// everything hand-written: (entry, modelled)
pub fn all_hand() -> Vec<(Entry, bool)> {
    let mut v: Vec<(Entry, bool)> = vec![];
    v.extend(scalar_entries().into_iter().map(|e| (e, true)));
    v.extend(container_entries().into_iter().map(|e| (e, true)));
    v.extend(hand_entries());
    v
}
