//! Locate the instances of derived structs / variants / enums inside a payload, by walking
//! the descriptor and the payload in parallel.

use crate::pv::{Path, Step, PV};
use crate::ty::*;

#[derive(Clone, Debug)]
pub enum Site {
    /// an object read as a struct or as a struct-like variant (`tag` set for variants)
    Fields { path: Path, fields: Vec<FieldTy>, tag: Option<String>, deny: Deny },
    /// an object read as a tagged enum
    Tagged { path: Path, en: std::sync::Arc<EnumTy> },
    /// a value read as a unit-only enum
    UnitEnum { path: Path, en: std::sync::Arc<UnitEnumTy> },
}

impl Site {
    pub fn path(&self) -> &Path {
        match self {
            Site::Fields { path, .. } | Site::Tagged { path, .. } | Site::UnitEnum { path, .. } => path,
        }
    }
}

pub fn sites(ty: &Ty, pv: &PV) -> Vec<Site> {
    let mut out = vec![];
    walk(ty, pv, &mut vec![], &mut out, 0);
    out
}

fn walk(ty: &Ty, pv: &PV, cur: &mut Path, out: &mut Vec<Site>, depth: usize) {
    if depth > 60 {
        return;
    }
    match (ty, pv) {
        (Ty::Lazy(f), _) => walk(&f(), pv, cur, out, depth + 1),
        (Ty::Option(t), _) | (Ty::Boxed(t), _) => {
            if !matches!(pv, PV::Null) || matches!(ty, Ty::Boxed(_)) {
                walk(t, pv, cur, out, depth + 1)
            }
        }
        (Ty::Via(v), _) => walk(&v.inner, pv, cur, out, depth + 1),
        (Ty::Vec(t), PV::Seq(s)) | (Ty::HashSet(t), PV::Seq(s)) | (Ty::BTreeSet(t), PV::Seq(s)) => {
            for (i, x) in s.iter().enumerate() {
                cur.push(Step::Index(i));
                walk(t, x, cur, out, depth + 1);
                cur.pop();
            }
        }
        (Ty::Array(t, n), PV::Seq(s)) if s.len() == *n => {
            for (i, x) in s.iter().enumerate() {
                cur.push(Step::Index(i));
                walk(t, x, cur, out, depth + 1);
                cur.pop();
            }
        }
        (Ty::Tuple(ts), PV::Seq(s)) if s.len() == ts.len() => {
            for (i, (t, x)) in ts.iter().zip(s.iter()).enumerate() {
                cur.push(Step::Index(i));
                walk(t, x, cur, out, depth + 1);
                cur.pop();
            }
        }
        (Ty::Map { key, val, .. }, PV::Map(m)) => {
            for (k, x) in m {
                if key.parse(k).is_some() {
                    cur.push(Step::Key(k.clone()));
                    walk(val, x, cur, out, depth + 1);
                    cur.pop();
                }
            }
        }
        (Ty::Struct(st), PV::Map(m)) => {
            out.push(Site::Fields { path: cur.clone(), fields: st.fields.clone(), tag: None, deny: st.deny.clone() });
            for (k, x) in m {
                if let Some(f) = st.fields.iter().find(|f| !f.skip && f.key == *k) {
                    cur.push(Step::Key(k.clone()));
                    walk(&f.src, x, cur, out, depth + 1);
                    cur.pop();
                }
            }
        }
        (Ty::TaggedEnum(en), PV::Map(m)) => {
            out.push(Site::Tagged { path: cur.clone(), en: en.clone() });
            let tag = m.iter().find(|(k, _)| *k == en.tag).and_then(|(_, v)| if let PV::Str(s) = v { Some(s.clone()) } else { None });
            if let Some(var) = tag.and_then(|t| en.variants.iter().find(|v| v.key == t)) {
                if let Some(fields) = &var.fields {
                    out.push(Site::Fields { path: cur.clone(), fields: fields.clone(), tag: Some(en.tag.clone()), deny: en.deny.clone() });
                    let mut tag_seen = false;
                    for (k, x) in m {
                        if *k == en.tag && !tag_seen {
                            tag_seen = true;
                            continue;
                        }
                        if let Some(f) = fields.iter().find(|f| !f.skip && f.key == *k) {
                            cur.push(Step::Key(k.clone()));
                            walk(&f.src, x, cur, out, depth + 1);
                            cur.pop();
                        }
                    }
                }
            }
        }
        (Ty::UnitEnum(en), _) => out.push(Site::UnitEnum { path: cur.clone(), en: en.clone() }),
        _ => {}
    }
}

/// replace the value at `path` by `f(old)`; with duplicate keys the first match is used
pub fn update_at(pv: &PV, path: &[Step], f: &mut dyn FnMut(&PV) -> PV) -> PV {
    if path.is_empty() {
        return f(pv);
    }
    match (pv, &path[0]) {
        (PV::Seq(s), Step::Index(i)) if *i < s.len() => {
            let mut s2 = s.clone();
            s2[*i] = update_at(&s[*i], &path[1..], f);
            PV::Seq(s2)
        }
        (PV::Map(m), Step::Key(k)) => {
            let mut m2 = m.clone();
            if let Some(p) = m2.iter().position(|(kk, _)| kk == k) {
                m2[p].1 = update_at(&m[p].1, &path[1..], f);
            }
            PV::Map(m2)
        }
        _ => pv.clone(),
    }
}
