//! `M`: model of *result* values, and `ToModel` bringing actual Rust values into it.

use std::collections::{BTreeMap, BTreeSet, HashMap, HashSet};
use std::marker::PhantomData;
use std::num::*;

#[derive(Clone, Debug, PartialEq, Eq, Hash, PartialOrd, Ord)]
pub enum M {
    Unit,
    Bool(bool),
    Int(i128),
    /// u128 values above i128::MAX cannot come from a payload (u64/i64 sources); kept for totality
    Big(u128),
    F32(u32),
    F64(u64),
    Char(char),
    Str(String),
    Seq(Vec<M>),
    /// sets: sorted, de-duplicated
    Set(Vec<M>),
    /// maps: sorted by key
    Map(Vec<(M, M)>),
    None,
    Some(Box<M>),
    Phantom,
    /// serde_json::Value result, as its JSON text
    Json(String),
    Struct { name: String, fields: Vec<(String, M)> },
    Variant { name: String, variant: String, fields: Vec<(String, M)> },
    /// value produced by a `from`/`try_from` probe `via`, `mapped` times through a map probe
    Conv { via: u32, inner: Box<M> },
}

impl M {
    pub fn f32(f: f32) -> M {
        M::F32(if f.is_nan() { f32::NAN.to_bits() } else { f.to_bits() })
    }
    pub fn f64(f: f64) -> M {
        M::F64(if f.is_nan() { f64::NAN.to_bits() } else { f.to_bits() })
    }
    pub fn set(mut v: Vec<M>) -> M {
        v.sort();
        v.dedup();
        M::Set(v)
    }
    pub fn map(mut v: Vec<(M, M)>) -> M {
        v.sort();
        M::Map(v)
    }
    pub fn show(&self) -> String {
        match self {
            M::Unit => "()".into(),
            M::Bool(b) => format!("{b}"),
            M::Int(i) => format!("{i}"),
            M::Big(i) => format!("{i}"),
            M::F32(b) => format!("{:?}f32", f32::from_bits(*b)),
            M::F64(b) => format!("{:?}f64", f64::from_bits(*b)),
            M::Char(c) => format!("{c:?}"),
            M::Str(s) => format!("{s:?}"),
            M::Seq(v) => format!("[{}]", v.iter().map(|x| x.show()).collect::<Vec<_>>().join(",")),
            M::Set(v) => format!("set{{{}}}", v.iter().map(|x| x.show()).collect::<Vec<_>>().join(",")),
            M::Map(v) => format!(
                "map{{{}}}",
                v.iter().map(|(k, x)| format!("{}=>{}", k.show(), x.show())).collect::<Vec<_>>().join(",")
            ),
            M::None => "None".into(),
            M::Some(x) => format!("Some({})", x.show()),
            M::Phantom => "PhantomData".into(),
            M::Json(s) => format!("json`{s}`"),
            M::Struct { name, fields } => format!(
                "{name}{{{}}}",
                fields.iter().map(|(k, x)| format!("{k}:{}", x.show())).collect::<Vec<_>>().join(",")
            ),
            M::Variant { name, variant, fields } => format!(
                "{name}::{variant}{{{}}}",
                fields.iter().map(|(k, x)| format!("{k}:{}", x.show())).collect::<Vec<_>>().join(",")
            ),
            M::Conv { via, inner } => format!("conv#{via}({})", inner.show()),
        }
    }
}

pub trait ToModel {
    fn to_model(&self) -> M;
}

impl ToModel for () {
    fn to_model(&self) -> M {
        M::Unit
    }
}
impl ToModel for bool {
    fn to_model(&self) -> M {
        M::Bool(*self)
    }
}
impl ToModel for char {
    fn to_model(&self) -> M {
        M::Char(*self)
    }
}
impl ToModel for String {
    fn to_model(&self) -> M {
        M::Str(self.clone())
    }
}
impl ToModel for f32 {
    fn to_model(&self) -> M {
        M::f32(*self)
    }
}
impl ToModel for f64 {
    fn to_model(&self) -> M {
        M::f64(*self)
    }
}
macro_rules! int_model {
    ($($t:ty),*) => {$(
        impl ToModel for $t { fn to_model(&self) -> M { M::Int(*self as i128) } }
    )*};
}
int_model!(u8, u16, u32, u64, usize, i8, i16, i32, i64, i128, isize);
impl ToModel for u128 {
    fn to_model(&self) -> M {
        if *self <= i128::MAX as u128 {
            M::Int(*self as i128)
        } else {
            M::Big(*self)
        }
    }
}
macro_rules! nz_model {
    ($($t:ty),*) => {$(
        impl ToModel for $t { fn to_model(&self) -> M { self.get().to_model() } }
    )*};
}
nz_model!(
    NonZeroU8, NonZeroU16, NonZeroU32, NonZeroU64, NonZeroU128, NonZeroUsize, NonZeroI8, NonZeroI16,
    NonZeroI32, NonZeroI64, NonZeroI128, NonZeroIsize
);

impl<T: ToModel> ToModel for Vec<T> {
    fn to_model(&self) -> M {
        M::Seq(self.iter().map(|x| x.to_model()).collect())
    }
}
impl<T: ToModel, const N: usize> ToModel for [T; N] {
    fn to_model(&self) -> M {
        M::Seq(self.iter().map(|x| x.to_model()).collect())
    }
}
impl<A: ToModel, B: ToModel> ToModel for (A, B) {
    fn to_model(&self) -> M {
        M::Seq(vec![self.0.to_model(), self.1.to_model()])
    }
}
impl<A: ToModel, B: ToModel, C: ToModel> ToModel for (A, B, C) {
    fn to_model(&self) -> M {
        M::Seq(vec![self.0.to_model(), self.1.to_model(), self.2.to_model()])
    }
}
impl<T: ToModel> ToModel for HashSet<T> {
    fn to_model(&self) -> M {
        M::set(self.iter().map(|x| x.to_model()).collect())
    }
}
impl<T: ToModel> ToModel for BTreeSet<T> {
    fn to_model(&self) -> M {
        M::set(self.iter().map(|x| x.to_model()).collect())
    }
}
impl<K: ToModel, T: ToModel> ToModel for HashMap<K, T> {
    fn to_model(&self) -> M {
        M::map(self.iter().map(|(k, x)| (k.to_model(), x.to_model())).collect())
    }
}
impl<K: ToModel, T: ToModel> ToModel for BTreeMap<K, T> {
    fn to_model(&self) -> M {
        M::map(self.iter().map(|(k, x)| (k.to_model(), x.to_model())).collect())
    }
}
impl<T: ToModel> ToModel for Option<T> {
    fn to_model(&self) -> M {
        match self {
            None => M::None,
            Some(x) => M::Some(Box::new(x.to_model())),
        }
    }
}
impl<T: ToModel> ToModel for Box<T> {
    fn to_model(&self) -> M {
        (**self).to_model()
    }
}
impl<T> ToModel for PhantomData<T> {
    fn to_model(&self) -> M {
        M::Phantom
    }
}
impl ToModel for serde_json::Value {
    fn to_model(&self) -> M {
        M::Json(serde_json::to_string(self).unwrap())
    }
}
impl<R: ToModel> ToModel for serde_cs::vec::CS<R> {
    fn to_model(&self) -> M {
        M::Seq(self.0.iter().map(|x| x.to_model()).collect())
    }
}
