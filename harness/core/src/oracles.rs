//! Model-free oracles evaluated on one recorded history (used by the proptest checks and by
//! the fuzz targets).  Each returns `Err((signature, description))` on a violation.

use crate::entry::{Entry, Outcome, Src};
use crate::pv::{is_prefix, path_str, Kind, Path, Step, PV};
use crate::trace::{show_event, Event, RKind, Script};
use crate::ty::*;
use std::collections::BTreeMap;

pub type Viol = (String, String);

/// the descriptor of the value expected at `path` below a value of type `ty` (None when the
/// path leaves the typed part of the payload)
pub fn type_at(ty: &Ty, path: &[Step], payload: &PV) -> Option<Ty> {
    let ty = ty.resolve();
    match &ty {
        Ty::Option(t) | Ty::Boxed(t) => return type_at(t, path, payload),
        Ty::Via(v) => return type_at(&v.inner, path, payload),
        _ => {}
    }
    let Some(step) = path.first() else { return Some(ty) };
    // with duplicate keys several children answer to the same step: try each
    let children: Vec<PV> = match (step, payload) {
        (Step::Key(k), PV::Map(m)) => m.iter().filter(|(kk, _)| kk == k).map(|x| x.1.clone()).collect(),
        (Step::Index(i), PV::Seq(s)) => s.get(*i).cloned().into_iter().collect(),
        _ => vec![],
    };
    let children = if children.is_empty() { vec![PV::Null] } else { children };
    for child in &children {
        if let Some(t) = type_at_child(&ty, step, &path[1..], payload, child) {
            return Some(t);
        }
    }
    None
}

fn type_at_child(ty: &Ty, step: &Step, rest: &[Step], payload: &PV, child: &PV) -> Option<Ty> {
    match (ty, step) {
        (Ty::Vec(t), Step::Index(_)) | (Ty::HashSet(t), Step::Index(_)) | (Ty::BTreeSet(t), Step::Index(_)) => type_at(t, rest, child),
        (Ty::Array(t, _), Step::Index(_)) => type_at(t, rest, child),
        (Ty::Tuple(ts), Step::Index(i)) => ts.get(*i).and_then(|t| type_at(t, rest, child)),
        (Ty::Map { val, .. }, Step::Key(_)) => type_at(val, rest, child),
        (Ty::Json, _) => Some(Ty::Json),
        (Ty::Struct(st), Step::Key(k)) => st.fields.iter().find(|f| !f.skip && f.key == *k).and_then(|f| type_at(&f.src, rest, child)),
        (Ty::TaggedEnum(en), Step::Key(k)) => {
            if *k == en.tag && rest.is_empty() {
                return Some(Ty::Str);
            }
            let PV::Map(m) = payload else { return None };
            let tag = m.iter().find(|(kk, _)| *kk == en.tag).and_then(|(_, v)| if let PV::Str(s) = v { Some(s.clone()) } else { None })?;
            let var = en.variants.iter().find(|v| v.key == tag)?;
            var.fields.as_ref()?.iter().find(|f| !f.skip && f.key == *k).and_then(|f| type_at(&f.src, rest, child))
        }
        _ => None,
    }
}

pub fn ctor_at(ty: &Ty, path: &[Step], payload: &PV) -> &'static str {
    // look through Option/Box to the constructor that does the work
    type_at(ty, path, payload).map(|t| t.ctor()).unwrap_or("?")
}

fn parent(p: &[Step]) -> Option<&[Step]> {
    if p.is_empty() {
        None
    } else {
        Some(&p[..p.len() - 1])
    }
}

// -------------------------------------------------------------------------------------
// C01

pub fn c01(e: &Entry, payload: &PV, out: &Outcome) -> Result<(), Viol> {
    if out.panicked.is_some() {
        return Ok(()); // C12's business
    }
    let issued: Vec<u32> = out
        .trace
        .iter()
        .filter_map(|ev| if let Event::Report { id, .. } = ev { Some(*id) } else { None })
        .collect();
    let handovers = out.trace.iter().filter(|ev| matches!(ev, Event::HandOver { .. })).count();
    let lost_sig = |lost: u32| -> String {
        // the last event that mentions the lost id tells who held it last
        let mut last: Option<&Event> = None;
        for ev in &out.trace {
            match ev {
                Event::Report { id, self_ids, .. } => {
                    if *id == lost || self_ids.as_ref().map(|s| s.contains(&lost)).unwrap_or(false) {
                        last = Some(ev);
                    }
                }
                Event::HandOver { self_ids, other_ids, .. } => {
                    if other_ids.contains(&lost) || self_ids.as_ref().map(|s| s.contains(&lost)).unwrap_or(false) {
                        last = Some(ev);
                    }
                }
                _ => {}
            }
        }
        match last {
            Some(Event::Report { loc, kind, self_ids, .. }) => {
                if self_ids.is_some() {
                    format!("last-held-by-report:{}|at={}", kind.class(), ctor_at(&e.ty, loc, payload))
                } else {
                    format!(
                        "last-held-by-report:{}|at={}|parent={}",
                        kind.class(),
                        ctor_at(&e.ty, loc, payload),
                        parent(loc).map(|p| ctor_at(&e.ty, p, payload)).unwrap_or("<caller>")
                    )
                }
            }
            Some(Event::HandOver { loc, .. }) => {
                format!("last-held-by-handover|parent={}", parent(loc).map(|p| ctor_at(&e.ty, p, payload)).unwrap_or("<caller>"))
            }
            _ => "unknown".into(),
        }
    };
    match &out.result {
        Ok(m) => {
            if !issued.is_empty() || handovers > 0 {
                let sig = format!("C01|ok-with-reports|{}", issued.first().map(|i| lost_sig(*i)).unwrap_or("handover-only".into()));
                return Err((
                    sig,
                    format!(
                        "deserialize returned Ok({}) although the error type was asked to record {} report(s) / {} hand-over(s); first: {}",
                        m.show(),
                        issued.len(),
                        handovers,
                        out.trace.iter().find(|e| e.is_decision()).map(show_event).unwrap_or_default()
                    ),
                ));
            }
        }
        Err(ids) => {
            let mut count: BTreeMap<u32, usize> = BTreeMap::new();
            for i in ids {
                *count.entry(*i).or_insert(0) += 1;
            }
            if let Some((dup, n)) = count.iter().find(|(_, n)| **n > 1) {
                return Err((
                    "C01|report-counted-twice".into(),
                    format!("report #{dup} occurs {n} times in the returned error {ids:?}"),
                ));
            }
            for i in &issued {
                if !count.contains_key(i) {
                    return Err((
                        format!("C01|report-dropped|{}", lost_sig(*i)),
                        format!("report #{i} was made during the call but is not in the returned error {ids:?} (issued: {issued:?})"),
                    ));
                }
            }
            for i in ids {
                if !issued.contains(i) {
                    return Err(("C01|unknown-id".into(), format!("returned error holds id #{i} that was never issued")));
                }
            }
            if ids.is_empty() {
                return Err(("C01|err-without-report".into(), "Err returned but no report was ever made".into()));
            }
        }
    }
    Ok(())
}

// -------------------------------------------------------------------------------------
// C04

fn locs_of_ids(trace: &[Event]) -> BTreeMap<u32, &Path> {
    trace
        .iter()
        .filter_map(|ev| if let Event::Report { id, loc, .. } = ev { Some((*id, loc)) } else { None })
        .collect()
}

/// does the type have a tagged enum whose tag key equals a field key of one of its variants
pub fn has_tag_field_collision(ty: &Ty, depth: usize) -> bool {
    if depth > 8 {
        return false;
    }
    match ty {
        Ty::TaggedEnum(en) => {
            en.variants.iter().any(|v| {
                v.fields.as_ref().map(|fs| fs.iter().any(|f| (!f.skip && f.key == en.tag) || has_tag_field_collision(&f.src, depth + 1))).unwrap_or(false)
            })
        }
        Ty::Struct(st) => st.fields.iter().any(|f| has_tag_field_collision(&f.src, depth + 1)),
        Ty::Vec(t) | Ty::Array(t, _) | Ty::HashSet(t) | Ty::BTreeSet(t) | Ty::Option(t) | Ty::Boxed(t) => {
            has_tag_field_collision(t, depth + 1)
        }
        Ty::Map { val, .. } => has_tag_field_collision(val, depth + 1),
        Ty::Tuple(ts) => ts.iter().any(|t| has_tag_field_collision(t, depth + 1)),
        Ty::Via(v) => has_tag_field_collision(&v.inner, depth + 1),
        _ => false,
    }
}

pub fn c04(e: &Entry, payload: &PV, src: Src, out: &Outcome) -> Result<(), Viol> {
    // serde_json presents objects with sorted, de-duplicated keys: judge against that view
    let canon;
    let payload = if src == Src::Json {
        canon = payload.canonical().unwrap_or_else(|| payload.clone());
        &canon
    } else {
        payload
    };
    let collision = has_tag_field_collision(&e.ty, 0);
    let id_locs = locs_of_ids(&out.trace);
    for (idx, ev) in out.trace.iter().enumerate() {
        match ev {
            Event::Report { kind, loc, id, .. } => {
                let at = payload.resolve_all(loc);
                let ctor = ctor_at(&e.ty, loc, payload);
                let pctor = parent(loc).map(|p| ctor_at(&e.ty, p, payload)).unwrap_or("<root>");
                let last_is_nonfirst = match loc.last() {
                    Some(Step::Index(i)) => *i > 0,
                    _ => false,
                };
                if at.is_empty() {
                    return Err((
                        format!("C04|location-does-not-exist|{}|parent={pctor}", kind.class()),
                        format!("report #{id} {} points at {} which does not exist in the payload", crate::trace::show_kind(kind), path_str(loc)),
                    ));
                }
                let bad = |what: &str| -> Result<(), Viol> {
                    Err((
                        format!("C04|{what}|at={ctor}|parent={pctor}|{}", if last_is_nonfirst { "index>0" } else { "first-or-key" }),
                        format!(
                            "report #{id} {} at {}: {what}; payload there: {}",
                            crate::trace::show_kind(kind),
                            path_str(loc),
                            at.iter().map(|v| v.show()).collect::<Vec<_>>().join(" | ")
                        ),
                    ))
                };
                match kind {
                    RKind::IncorrectValueKind { actual, accepted } => {
                        if !at.iter().any(|v| *v == actual) {
                            return bad("actual-is-not-the-value-there");
                        }
                        if accepted.contains(&actual.kind()) {
                            return bad("actual-kind-is-among-accepted");
                        }
                    }
                    RKind::BadSequenceLen { actual, expected } => {
                        if !at.iter().any(|v| *v == actual) {
                            return bad("actual-is-not-the-sequence-there");
                        }
                        if let PV::Seq(s) = actual {
                            if s.len() == *expected {
                                return bad("length-equals-expected");
                            }
                        }
                    }
                    RKind::MissingField { field } => {
                        if !collision {
                            let ok = at.iter().any(|v| match v {
                                PV::Map(m) => !m.iter().any(|(k, _)| k == field),
                                _ => false,
                            });
                            if !ok {
                                return bad("missing-field-is-present-or-not-an-object");
                            }
                        }
                    }
                    RKind::UnknownKey { key, accepted } => {
                        let ok = at.iter().any(|v| match v {
                            PV::Map(m) => m.iter().any(|(k, _)| k == key),
                            _ => false,
                        });
                        if !ok {
                            return bad("unknown-key-not-present");
                        }
                        if accepted.contains(key) {
                            return bad("unknown-key-is-accepted");
                        }
                    }
                    RKind::UnknownValue { value, accepted } => {
                        if !at.iter().any(|v| matches!(v, PV::Str(s) if s == value)) {
                            return bad("unknown-value-is-not-the-string-there");
                        }
                        if accepted.contains(value) {
                            return bad("unknown-value-is-accepted");
                        }
                    }
                    RKind::Unexpected { .. } | RKind::Foreign(_) => {}
                }
            }
            Event::HandOver { other_ids, other_built_by, loc, .. } => {
                let pctor = parent(loc).map(|p| ctor_at(&e.ty, p, payload)).unwrap_or("<root>");
                for oid in other_ids {
                    if let Some(rl) = id_locs.get(oid) {
                        if !is_prefix(loc, rl) {
                            return Err((
                                format!("C04|merge-location-not-ancestor|parent={pctor}"),
                                format!(
                                    "hand-over (event {idx}) at {} carries report #{oid} located at {}, which is not below it",
                                    path_str(loc),
                                    path_str(rl)
                                ),
                            ));
                        }
                    }
                }
                // producer rule: the merge location is the child's own position
                let Some(prod) = out.trace.get(*other_built_by) else { continue };
                let allowed: Vec<Path> = match prod {
                    Event::Report { loc: r, kind, .. } => {
                        let mut v = vec![r.clone()];
                        // a non-string tag is reported at enum.tag and handed over at the enum
                        if let (RKind::IncorrectValueKind { accepted, .. }, Some(Step::Key(k))) = (kind, r.last()) {
                            if accepted == &vec![Kind::String] {
                                let p = &r[..r.len() - 1];
                                match type_at(&e.ty, p, payload) {
                                    Some(Ty::TaggedEnum(en)) => {
                                        if en.tag == *k {
                                            v.push(p.to_vec());
                                        }
                                    }
                                    // the typed reading of the payload is ambiguous here (duplicate keys,
                                    // type-blind payload): the exception cannot be ruled out
                                    None => v.push(p.to_vec()),
                                    // a tag key that is also a field key makes `p` readable both as the tag
                                    // (a string) and as the field (possibly an enum): not judged (rule 8)
                                    _ if collision => v.push(p.to_vec()),
                                    _ => {}
                                }
                            }
                        }
                        v
                    }
                    Event::HandOver { loc: g, .. } => {
                        let mut v = vec![g.clone()];
                        if let Some(p) = parent(g) {
                            v.push(p.to_vec());
                        }
                        v
                    }
                    _ => continue,
                };
                if !allowed.iter().any(|a| a == loc) {
                    let idx_note = match (loc.last(), allowed[0].last()) {
                        (Some(Step::Index(a)), Some(Step::Index(b))) if a != b => "|wrong-index",
                        _ => "",
                    };
                    return Err((
                        format!("C04|merge-location-not-childs-position|parent={pctor}{idx_note}"),
                        format!(
                            "hand-over (event {idx}) at {}: the error handed over was built by [{}], so the child's own position is {}",
                            path_str(loc),
                            show_event(prod),
                            allowed.iter().map(|a| path_str(a)).collect::<Vec<_>>().join(" or ")
                        ),
                    ));
                }
            }
            _ => {}
        }
    }
    Ok(())
}

// -------------------------------------------------------------------------------------
// C03

/// `tinf` is the keep-going history; `tk` the history under Continue×k, Break…
pub fn c03_at_k(tinf: &[Event], k: usize, outk: &Outcome) -> Result<(), Viol> {
    if outk.panicked.is_some() {
        return Ok(());
    }
    let tk = &outk.trace;
    // position of the k-th decision in tinf
    let mut seen = 0usize;
    let mut pos = None;
    for (i, ev) in tinf.iter().enumerate() {
        if ev.is_decision() {
            if seen == k {
                pos = Some(i);
                break;
            }
            seen += 1;
        }
    }
    let Some(pos) = pos else { return Ok(()) };
    // (i) identical history up to and including decision k
    for i in 0..=pos {
        let a = tinf[i].without_answer();
        let b = tk.get(i).map(|e| e.without_answer());
        if Some(&a) != b.as_ref() {
            return Err((
                "C03|prefix-differs".into(),
                format!(
                    "with Break at decision {k}, event {i} differs from the keep-going run: keep-going [{}] vs [{}]",
                    show_event(&tinf[i]),
                    tk.get(i).map(show_event).unwrap_or("<nothing>".into())
                ),
            ));
        }
    }
    // (ii) afterwards: only hand-overs of the error just built, climbing towards the root
    let mut prev_idx = pos;
    let mut prev_loc: Path = match &tk[pos] {
        Event::Report { loc, .. } | Event::HandOver { loc, .. } => loc.clone(),
        _ => vec![],
    };
    for (i, ev) in tk.iter().enumerate().skip(pos + 1) {
        match ev {
            Event::HandOver { other_built_by, loc, .. } => {
                if *other_built_by != prev_idx {
                    return Err((
                        "C03|handover-of-something-else-after-stop".into(),
                        format!("after the stop at decision {k}: [{}] does not hand over the error built by event {prev_idx}", show_event(ev)),
                    ));
                }
                prev_idx = i;
                prev_loc = loc.clone();
            }
            Event::Report { .. } => {
                return Err((
                    "C03|new-report-after-stop".into(),
                    format!("after the stop at decision {k} a new report was produced: [{}]", show_event(ev)),
                ));
            }
            Event::Visit(_) => {
                return Err((
                    "C03|payload-examined-after-stop".into(),
                    format!("after the stop at decision {k} the payload was examined further: [{}]", show_event(ev)),
                ));
            }
            Event::UserFn { .. } => {
                return Err((
                    "C03|user-function-called-after-stop".into(),
                    format!("after the stop at decision {k} a user function ran: [{}]", show_event(ev)),
                ));
            }
        }
    }
    // (iii) the call fails
    if outk.result.is_ok() {
        return Err(("C03|ok-after-stop".into(), format!("Break at decision {k} but deserialize returned Ok")));
    }
    Ok(())
}

/// arbitrary scripts: right after any Break answer, the next event (if any) hands that very error over
/// is the conversion probe `id` a FIELD-level try_from of the struct / variant that owns `loc`
/// (as opposed to the container-level try_from of the type found at `loc`)
fn field_level_try_from(ty: &Ty, payload: &PV, loc: &[Step], id: u32) -> bool {
    let Some((Step::Key(k), parent_loc)) = loc.split_last() else { return false };
    let fields: Vec<FieldTy> = match type_at(ty, parent_loc, payload) {
        Some(Ty::Struct(st)) => st.fields.clone(),
        Some(Ty::TaggedEnum(en)) => {
            let at = payload.resolve_all(parent_loc);
            let tag = at.first().and_then(|v| match v {
                PV::Map(m) => m.iter().find(|(kk, _)| *kk == en.tag).and_then(|(_, v)| if let PV::Str(s) = v { Some(s.clone()) } else { None }),
                _ => None,
            });
            match tag.and_then(|t| en.variants.iter().find(|v| v.key == t).cloned()) {
                Some(v) => v.fields.unwrap_or_default(),
                None => return false,
            }
        }
        _ => return false,
    };
    fields.iter().any(|f| !f.skip && f.key == *k && f.conv == Conv::TryFrom(id))
}

pub fn c03_random(e: &Entry, payload: &PV, src: Src, out: &Outcome) -> Result<(), Viol> {
    if out.panicked.is_some() {
        return Ok(());
    }
    let canon;
    let payload = if src == Src::Json {
        canon = payload.canonical().unwrap_or_else(|| payload.clone());
        &canon
    } else {
        payload
    };
    let t = &out.trace;
    // a field-level conversion failure is reported by the struct's own code: a Break answer makes the
    // STRUCT return at once - it passes the error to its accumulator (one hand-over at the same place,
    // whatever that answers) and nothing further inside it is examined
    for (i, ev) in t.iter().enumerate() {
        if let Event::Report { kind: RKind::Foreign(crate::trace::ProbeData::Failed { id, role }), cont: false, loc, .. } = ev {
            if *role == "try_from" && field_level_try_from(&e.ty, payload, loc, *id) {
                if let Some(Event::HandOver { other_built_by, loc: l2, .. }) = t.get(i + 1) {
                    if *other_built_by == i && l2 == loc {
                        match t.get(i + 2) {
                            None => {}
                            Some(Event::HandOver { other_built_by: b2, .. }) if *b2 == i + 1 => {}
                            Some(other) => {
                                return Err((
                                    "C03|container-continued-after-stop-on-its-own-report".into(),
                                    format!(
                                        "[{}] answered Break: the struct that made this report must return at once (after [{}]), but then: [{}]",
                                        show_event(ev),
                                        show_event(&t[i + 1]),
                                        show_event(other)
                                    ),
                                ));
                            }
                        }
                    }
                }
            }
        }
    }
    for (i, ev) in t.iter().enumerate() {
        let (cont, loc) = match ev {
            Event::Report { cont, loc, .. } | Event::HandOver { cont, loc, .. } => (*cont, loc),
            _ => continue,
        };
        if cont {
            continue;
        }
        match t.get(i + 1) {
            None => {}
            Some(Event::HandOver { other_built_by, loc: l2, .. }) => {
                if *other_built_by != i {
                    return Err((
                        "C03|handover-of-something-else-after-stop".into(),
                        format!("[{}] answered Break, but the next event [{}] does not hand that error over", show_event(ev), show_event(&t[i + 1])),
                    ));
                }
            }
            Some(other) => {
                let what = match other {
                    Event::Report { .. } => "C03|new-report-after-stop",
                    Event::Visit(_) => "C03|payload-examined-after-stop",
                    _ => "C03|user-function-called-after-stop",
                };
                return Err((what.into(), format!("[{}] answered Break, but then: [{}]", show_event(ev), show_event(other))));
            }
        }
    }
    if t.iter().any(|e| matches!(e, Event::Report { cont: false, .. } | Event::HandOver { cont: false, .. })) && out.result.is_ok() {
        return Err(("C03|ok-after-stop".into(), "a Break answer was given but deserialize returned Ok".into()));
    }
    Ok(())
}

/// Build a `ValuePointerRef` for `path` and call `f` with it.
pub fn with_loc<R>(path: &[Step], f: &mut dyn FnMut(deserr::ValuePointerRef) -> R) -> R {
    fn rec<R>(rest: &[Step], loc: deserr::ValuePointerRef, f: &mut dyn FnMut(deserr::ValuePointerRef) -> R) -> R {
        match rest.first() {
            None => f(loc),
            Some(Step::Key(k)) => rec(&rest[1..], loc.push_key(k), f),
            Some(Step::Index(i)) => rec(&rest[1..], loc.push_index(*i), f),
        }
    }
    rec(path, deserr::ValuePointerRef::Origin, f)
}

/// run helper
pub fn run(e: &Entry, payload: &PV, src: Src, script: &Script) -> Outcome {
    (e.rec)(payload, src, script)
}

/// Re-render a recorded report through the public API of a built-in error type:
/// `E::error(None, kind, location)` (user-function errors through `MergeWithError<ProbeErr>`).
pub fn rerender<E>(kind: &RKind, loc: &[Step]) -> Option<E>
where
    E: deserr::DeserializeError + deserr::MergeWithError<crate::rec::ProbeErr>,
{
    use deserr::{ErrorKind, IntoValue};
    type JV = serde_json::Value;
    let mut f = |l: deserr::ValuePointerRef| -> Option<E> {
        let cf = match kind {
            RKind::IncorrectValueKind { actual, accepted } => {
                let acc: Vec<deserr::ValueKind> = accepted.iter().map(|k| k.to_deserr()).collect();
                let j = actual.to_json()?;
                E::error::<JV>(None, ErrorKind::IncorrectValueKind { actual: j.into_value(), accepted: &acc }, l)
            }
            RKind::MissingField { field } => E::error::<JV>(None, ErrorKind::MissingField { field }, l),
            RKind::UnknownKey { key, accepted } => {
                let acc: Vec<&str> = accepted.iter().map(|s| s.as_str()).collect();
                E::error::<JV>(None, ErrorKind::UnknownKey { key, accepted: &acc }, l)
            }
            RKind::UnknownValue { value, accepted } => {
                let acc: Vec<&str> = accepted.iter().map(|s| s.as_str()).collect();
                E::error::<JV>(None, ErrorKind::UnknownValue { value, accepted: &acc }, l)
            }
            RKind::BadSequenceLen { actual, expected } => {
                let serde_json::Value::Array(a) = actual.to_json()? else { return None };
                E::error::<JV>(None, ErrorKind::BadSequenceLen { actual: a, expected: *expected }, l)
            }
            RKind::Unexpected { msg } => E::error::<JV>(None, ErrorKind::Unexpected { msg: msg.clone() }, l),
            RKind::Foreign(p) => <E as deserr::MergeWithError<crate::rec::ProbeErr>>::merge(None, crate::rec::ProbeErr(p.clone()), l),
        };
        Some(deserr::take_cf_content(cf))
    };
    with_loc(loc, &mut f)
}
