//! C18 oracle: did-you-mean reference (independent Damerau-Levenshtein, budget, earliest minimal).

use deserr::errors::helpers::did_you_mean;
use std::collections::{HashMap, HashSet, VecDeque};

/// unrestricted Damerau–Levenshtein over chars (Lowrance–Wagner), written independently
pub fn dl(a: &str, b: &str) -> usize {
    let a: Vec<char> = a.chars().collect();
    let b: Vec<char> = b.chars().collect();
    let (n, m) = (a.len(), b.len());
    if n == 0 {
        return m;
    }
    if m == 0 {
        return n;
    }
    let inf = n + m;
    let mut da: HashMap<char, usize> = HashMap::new();
    // d has an extra leading row/column
    let mut d = vec![vec![0usize; m + 2]; n + 2];
    d[0][0] = inf;
    for i in 0..=n {
        d[i + 1][0] = inf;
        d[i + 1][1] = i;
    }
    for j in 0..=m {
        d[0][j + 1] = inf;
        d[1][j + 1] = j;
    }
    for i in 1..=n {
        let mut db = 0usize;
        for j in 1..=m {
            let i1 = *da.get(&b[j - 1]).unwrap_or(&0);
            let j1 = db;
            let cost = if a[i - 1] == b[j - 1] {
                db = j;
                0
            } else {
                1
            };
            let sub = d[i][j] + cost;
            let ins = d[i + 1][j] + 1;
            let del = d[i][j + 1] + 1;
            let tr = d[i1][j1] + (i - i1 - 1) + 1 + (j - j1 - 1);
            d[i + 1][j + 1] = sub.min(ins).min(del).min(tr);
        }
        da.insert(a[i - 1], i);
    }
    d[n + 1][m + 1]
}

/// breadth-first search over single edit operations (insert, delete, substitute, transpose
/// adjacent) on a tiny alphabet: the definition itself, used to cross-check `dl`
pub fn bfs_dist(a: &str, b: &str, alphabet: &[char], maxlen: usize) -> usize {
    let start: Vec<char> = a.chars().collect();
    let goal: Vec<char> = b.chars().collect();
    let mut seen: HashSet<Vec<char>> = HashSet::new();
    let mut q = VecDeque::new();
    seen.insert(start.clone());
    q.push_back((start, 0usize));
    while let Some((s, d)) = q.pop_front() {
        if s == goal {
            return d;
        }
        let mut next: Vec<Vec<char>> = vec![];
        for i in 0..s.len() {
            let mut t = s.clone();
            t.remove(i);
            next.push(t);
            for &c in alphabet {
                if c != s[i] {
                    let mut t = s.clone();
                    t[i] = c;
                    next.push(t);
                }
            }
            if i + 1 < s.len() && s[i] != s[i + 1] {
                let mut t = s.clone();
                t.swap(i, i + 1);
                next.push(t);
            }
        }
        if s.len() < maxlen {
            for i in 0..=s.len() {
                for &c in alphabet {
                    let mut t = s.clone();
                    t.insert(i, c);
                    next.push(t);
                }
            }
        }
        for t in next {
            if seen.insert(t.clone()) {
                q.push_back((t, d + 1));
            }
        }
    }
    usize::MAX
}

pub fn budget(received: &str) -> Option<usize> {
    match received.len() {
        0..=3 => None,
        4..=7 => Some(1),
        8..=12 => Some(2),
        13..=17 => Some(3),
        18..=24 => Some(4),
        _ => Some(5),
    }
}

/// reference: index of the accepted string to suggest, if any
pub fn reference(received: &str, accepted: &[String]) -> Option<usize> {
    let b = budget(received)?;
    let mut best: Option<(usize, usize)> = None;
    for (i, a) in accepted.iter().enumerate() {
        let d = dl(received, a);
        if d <= b && best.map(|(_, bd)| d < bd).unwrap_or(true) {
            best = Some((i, d));
        }
    }
    best.map(|x| x.0)
}

pub fn check(received: &str, accepted: &[String]) -> Result<(), (String, String)> {
    let acc: Vec<&str> = accepted.iter().map(|s| s.as_str()).collect();
    let r = received.to_string();
    let got = std::panic::catch_unwind(|| did_you_mean(&r, &acc))
        .map_err(|p| ("panic".to_string(), format!("panicked: {}", crate::entry::panic_msg(p))))?;
    match reference(received, accepted) {
        None => {
            if !got.is_empty() {
                let why = if budget(received).is_none() { "received-too-short" } else { "beyond-budget" };
                return Err((
                    format!("suggestion-when-none-allowed|{why}"),
                    format!("did_you_mean({received:?}, {accepted:?}) = {got:?}, expected no suggestion"),
                ));
            }
        }
        Some(i) => {
            let want = &accepted[i];
            if got.is_empty() {
                return Err((
                    "missing-suggestion".into(),
                    format!("did_you_mean({received:?}, {accepted:?}) is empty, expected a suggestion of {want:?} (distance {})", dl(received, want)),
                ));
            }
            if !got.contains(&format!("`{want}`")) {
                return Err((
                    "wrong-suggestion".into(),
                    format!("did_you_mean({received:?}, {accepted:?}) = {got:?}, expected it to name {want:?} (earliest at minimal distance {})", dl(received, want)),
                ));
            }
            for a in accepted {
                if a != want && !want.contains(a.as_str()) && got.contains(&format!("`{a}`")) {
                    return Err((
                        "names-several".into(),
                        format!("did_you_mean({received:?}, {accepted:?}) = {got:?} also names {a:?}"),
                    ));
                }
            }
        }
    }
    Ok(())
}

