//! Thread-local ordered history of one `deserialize` call: reports, hand-overs, visits of
//! payload nodes (OV source) and user-function calls, plus the answer script of `Rec`.

use crate::model::M;
use crate::pv::{Kind, Path, PV};
use std::cell::RefCell;

#[derive(Clone, Debug, PartialEq)]
pub enum RKind {
    IncorrectValueKind { actual: PV, accepted: Vec<Kind> },
    MissingField { field: String },
    UnknownKey { key: String, accepted: Vec<String> },
    UnknownValue { value: String, accepted: Vec<String> },
    BadSequenceLen { actual: PV, expected: usize },
    Unexpected { msg: String },
    /// an error value returned by a user function (try_from / validate / custom missing /
    /// custom unknown-key function), handed to the error type through MergeWithError<ProbeErr>
    Foreign(ProbeData),
}

impl RKind {
    pub fn class(&self) -> &'static str {
        match self {
            RKind::IncorrectValueKind { .. } => "IncorrectValueKind",
            RKind::MissingField { .. } => "MissingField",
            RKind::UnknownKey { .. } => "UnknownKey",
            RKind::UnknownValue { .. } => "UnknownValue",
            RKind::BadSequenceLen { .. } => "BadSequenceLen",
            RKind::Unexpected { .. } => "Unexpected",
            RKind::Foreign(_) => "Foreign",
        }
    }
}

#[derive(Clone, Debug, PartialEq, Eq, Hash, PartialOrd, Ord)]
pub enum ProbeData {
    /// try_from / validate failure of probe `id`
    Failed { id: u32, role: &'static str },
    /// custom missing_field_error function: captured arguments
    Missing { id: u32, key: String, loc: Path },
    /// custom deny_unknown_fields function: captured arguments
    Unknown { id: u32, key: String, accepted: Vec<String>, loc: Path },
}

#[derive(Clone, Debug, PartialEq)]
pub enum Event {
    Report {
        id: u32,
        tag: u8,
        kind: RKind,
        loc: Path,
        self_ids: Option<Vec<u32>>,
        cont: bool,
    },
    HandOver {
        from: u8,
        to: u8,
        self_ids: Option<Vec<u32>>,
        other_ids: Vec<u32>,
        /// index in the trace of the event that built `other`
        other_built_by: usize,
        loc: Path,
        cont: bool,
    },
    Visit(u32),
    UserFn {
        id: u32,
        role: &'static str,
        arg: M,
        loc: Option<Path>,
        ok: bool,
    },
}

impl Event {
    pub fn is_decision(&self) -> bool {
        matches!(self, Event::Report { .. } | Event::HandOver { .. })
    }
    /// same event, with the answer blanked (C03 prefix comparison)
    pub fn without_answer(&self) -> Event {
        let mut e = self.clone();
        match &mut e {
            Event::Report { cont, .. } => *cont = true,
            Event::HandOver { cont, .. } => *cont = true,
            _ => {}
        }
        e
    }
}

#[derive(Clone, Debug, Default)]
pub struct Script {
    pub answers: Vec<bool>,
    /// answer once `answers` is exhausted (true = Continue)
    pub default: bool,
}

impl Script {
    pub fn all_continue() -> Script {
        Script { answers: vec![], default: true }
    }
    pub fn all_break() -> Script {
        Script { answers: vec![], default: false }
    }
    /// Continue × k, then Break forever
    pub fn break_at(k: usize) -> Script {
        Script { answers: vec![true; k], default: false }
    }
    pub fn show(&self) -> String {
        let a: String = self.answers.iter().map(|b| if *b { 'C' } else { 'B' }).collect();
        format!("{a}{}*", if self.default { 'C' } else { 'B' })
    }
    pub fn is_all_continue(&self) -> bool {
        self.default && self.answers.iter().all(|x| *x)
    }
    pub fn is_all_break(&self) -> bool {
        !self.default && self.answers.iter().all(|x| !*x)
    }
}

#[derive(Default)]
pub struct TraceState {
    pub events: Vec<Event>,
    pub script: Script,
    pub decisions: usize,
    pub next_id: u32,
    pub quiet: u32,
    pub enabled: bool,
}

thread_local! {
    pub static TRACE: RefCell<TraceState> = RefCell::new(TraceState::default());
}

/// start a fresh recorded run under `script`
pub fn begin(script: Script) {
    TRACE.with(|t| {
        let mut t = t.borrow_mut();
        t.events.clear();
        t.script = script;
        t.decisions = 0;
        t.next_id = 0;
        t.quiet = 0;
        t.enabled = true;
    })
}

/// stop recording and take the history
pub fn end() -> Vec<Event> {
    TRACE.with(|t| {
        let mut t = t.borrow_mut();
        t.enabled = false;
        t.quiet = 0;
        std::mem::take(&mut t.events)
    })
}

pub fn push(e: Event) -> usize {
    TRACE.with(|t| {
        let mut t = t.borrow_mut();
        if t.enabled && t.quiet == 0 {
            t.events.push(e);
        }
        t.events.len().saturating_sub(1)
    })
}

pub fn next_answer() -> bool {
    TRACE.with(|t| {
        let mut t = t.borrow_mut();
        let i = t.decisions;
        t.decisions += 1;
        t.script.answers.get(i).copied().unwrap_or(t.script.default)
    })
}

pub fn fresh_id() -> u32 {
    TRACE.with(|t| {
        let mut t = t.borrow_mut();
        let i = t.next_id;
        t.next_id += 1;
        i
    })
}

pub fn quiet_inc() {
    TRACE.with(|t| t.borrow_mut().quiet += 1)
}
pub fn quiet_dec() {
    TRACE.with(|t| {
        let mut t = t.borrow_mut();
        t.quiet = t.quiet.saturating_sub(1)
    })
}

// ---- helpers over a finished history ----

pub fn reports(ev: &[Event]) -> Vec<(u32, &RKind, &Path)> {
    ev.iter()
        .filter_map(|e| match e {
            Event::Report { id, kind, loc, .. } => Some((*id, kind, loc)),
            _ => None,
        })
        .collect()
}

pub fn n_decisions(ev: &[Event]) -> usize {
    ev.iter().filter(|e| e.is_decision()).count()
}

pub fn visits(ev: &[Event]) -> Vec<u32> {
    ev.iter()
        .filter_map(|e| match e {
            Event::Visit(n) => Some(*n),
            _ => None,
        })
        .collect()
}

pub fn show_event(e: &Event) -> String {
    match e {
        Event::Report { id, tag, kind, loc, self_ids, cont } => format!(
            "Report#{id}<{tag}> {} at {} self={:?} -> {}",
            show_kind(kind),
            crate::pv::path_str(loc),
            self_ids,
            if *cont { "Continue" } else { "Break" }
        ),
        Event::HandOver { from, to, self_ids, other_ids, loc, cont, other_built_by } => format!(
            "HandOver<{from}->{to}> other={other_ids:?}(built by ev{other_built_by}) into self={self_ids:?} at {} -> {}",
            crate::pv::path_str(loc),
            if *cont { "Continue" } else { "Break" }
        ),
        Event::Visit(n) => format!("Visit(node {n})"),
        Event::UserFn { id, role, arg, loc, ok } => format!(
            "UserFn {role}#{id}({}{}) -> {}",
            arg.show(),
            loc.as_ref().map(|l| format!(", at {}", crate::pv::path_str(l))).unwrap_or_default(),
            if *ok { "ok" } else { "err" }
        ),
    }
}

pub fn show_kind(k: &RKind) -> String {
    match k {
        RKind::IncorrectValueKind { actual, accepted } => {
            format!("IncorrectValueKind{{actual={}, accepted={accepted:?}}}", actual.show())
        }
        RKind::MissingField { field } => format!("MissingField{{{field:?}}}"),
        RKind::UnknownKey { key, accepted } => format!("UnknownKey{{{key:?}, accepted={accepted:?}}}"),
        RKind::UnknownValue { value, accepted } => format!("UnknownValue{{{value:?}, accepted={accepted:?}}}"),
        RKind::BadSequenceLen { actual, expected } => {
            format!("BadSequenceLen{{actual={}, expected={expected}}}", actual.show())
        }
        RKind::Unexpected { msg } => format!("Unexpected{{{msg:?}}}"),
        RKind::Foreign(p) => format!("Foreign{{{p:?}}}"),
    }
}

pub fn show_trace(ev: &[Event]) -> Vec<String> {
    ev.iter().map(show_event).collect()
}
