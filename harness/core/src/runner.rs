//! Parallel proptest driver: a custom `Strategy` over whole cases (type index, payload,
//! answer script) with a structural `ValueTree`, per-worker seeded `TestRunner`s, statistics
//! for the evidence file, known-finding exclusion and replay-file writing.

use crate::genp;
use crate::pv::PV;
use crate::trace::Script;
use proptest::strategy::{NewTree, Strategy, ValueTree};
use proptest::test_runner::{Config, RngAlgorithm, TestCaseError, TestError, TestRng, TestRunner};
use std::cell::RefCell;
use std::collections::{BTreeMap, HashSet};
use std::hash::{Hash, Hasher};
use std::sync::Arc;

#[derive(Clone, Debug)]
pub struct Case {
    /// index into the registry
    pub ty: usize,
    pub payload: PV,
    pub script: Script,
    /// extra random material for the check (permutation seeds, ...)
    pub aux: u64,
    /// faults injected by the generator (a hint for classification only)
    pub faults: usize,
}

pub type GenFn = Arc<dyn Fn(&mut TestRng) -> Case + Send + Sync>;

#[derive(Clone)]
pub struct CaseStrategy {
    pub gen: GenFn,
}

impl std::fmt::Debug for CaseStrategy {
    fn fmt(&self, f: &mut std::fmt::Formatter<'_>) -> std::fmt::Result {
        write!(f, "CaseStrategy")
    }
}

pub struct CaseTree {
    cur: Case,
    prev: Case,
    idx: usize,
}

fn case_reduction(c: &Case, i: usize) -> Option<Case> {
    // payload reductions first, then script reductions
    if let Some(p) = genp::reduction(&c.payload, i) {
        let mut c2 = c.clone();
        c2.payload = p;
        return Some(c2);
    }
    // count payload reductions to offset the index
    let mut n = 0;
    while genp::reduction(&c.payload, n).is_some() {
        n += 1;
        if n > 100_000 {
            break;
        }
    }
    let j = i - n;
    let a = &c.script.answers;
    // truncate the script
    if j == 0 && !a.is_empty() {
        let mut c2 = c.clone();
        c2.script.answers.pop();
        return Some(c2);
    }
    let j = if a.is_empty() { j } else { j - 1 };
    // turn a Break into a Continue
    let breaks: Vec<usize> = a.iter().enumerate().filter(|(_, b)| !**b).map(|(i, _)| i).collect();
    if j < breaks.len() {
        let mut c2 = c.clone();
        c2.script.answers[breaks[j]] = true;
        return Some(c2);
    }
    let j = j - breaks.len();
    if j == 0 && !c.script.default && !c.script.answers.is_empty() {
        let mut c2 = c.clone();
        c2.script.default = true;
        return Some(c2);
    }
    None
}

impl ValueTree for CaseTree {
    type Value = Case;
    fn current(&self) -> Case {
        self.cur.clone()
    }
    fn simplify(&mut self) -> bool {
        // huge payloads are reported as they are: the greedy structural shrinker is quadratic
        if self.cur.payload.size() > 4000 {
            return false;
        }
        // `cur` is known to fail: make it the base and try its first reduction
        self.prev = self.cur.clone();
        self.idx = 0;
        match case_reduction(&self.prev, 0) {
            Some(c) => {
                self.cur = c;
                true
            }
            None => false,
        }
    }
    fn complicate(&mut self) -> bool {
        // `cur` passed: go back to the base and try its next reduction
        self.idx += 1;
        match case_reduction(&self.prev, self.idx) {
            Some(c) => {
                self.cur = c;
                true
            }
            None => {
                self.cur = self.prev.clone();
                false
            }
        }
    }
}

impl Strategy for CaseStrategy {
    type Tree = CaseTree;
    type Value = Case;
    fn new_tree(&self, runner: &mut TestRunner) -> NewTree<Self> {
        let c = (self.gen)(runner.rng());
        Ok(CaseTree { cur: c.clone(), prev: c, idx: 0 })
    }
}

// ---------------------------------------------------------------------------------------

#[derive(Default, Clone, Debug)]
pub struct Stats {
    pub evaluations: u64,
    /// executions of the code under test (a case may run it several times)
    pub executions: u64,
    pub nontrivial: HashSet<u64>,
    pub classes: BTreeMap<String, u64>,
    pub samples: Vec<serde_json::Value>,
    pub sample_every: u64,
    pub excluded_known: BTreeMap<String, u64>,
}

impl Stats {
    pub fn class(&mut self, name: &str) {
        *self.classes.entry(name.to_string()).or_insert(0) += 1;
    }
    pub fn nontrivial<H: Hash>(&mut self, key: &H) {
        let mut h = std::collections::hash_map::DefaultHasher::new();
        key.hash(&mut h);
        self.nontrivial.insert(h.finish());
    }
    pub fn want_sample(&self) -> bool {
        let every = self.sample_every.max(1);
        self.samples.len() < 12 && (self.evaluations % every == 0 || self.evaluations < 3)
    }
    pub fn merge(&mut self, o: Stats) {
        self.evaluations += o.evaluations;
        self.executions += o.executions;
        self.nontrivial.extend(o.nontrivial);
        for (k, v) in o.classes {
            *self.classes.entry(k).or_insert(0) += v;
        }
        for (k, v) in o.excluded_known {
            *self.excluded_known.entry(k).or_insert(0) += v;
        }
        for s in o.samples {
            if self.samples.len() < 24 {
                self.samples.push(s);
            }
        }
    }
}

pub enum Verdict {
    Ok,
    /// a violation whose signature is listed as an open known finding: excluded and counted
    Known(String),
    /// a violation: (signature, human-readable details)
    Violation(String, serde_json::Value),
}

#[derive(Clone, Debug)]
pub struct Failure {
    pub case: Case,
    pub signature: String,
    pub details: serde_json::Value,
    pub worker: usize,
}

pub struct RunOut {
    pub stats: Stats,
    pub failures: Vec<Failure>,
}

pub fn worker_seed(seed: u64, prop: &str, worker: usize, round: u64) -> [u8; 32] {
    let mut out = [0u8; 32];
    let mut h = std::collections::hash_map::DefaultHasher::new();
    // DefaultHasher::new() uses fixed keys: deterministic across processes
    (seed, prop, worker as u64, round).hash(&mut h);
    let mut x = h.finish();
    for chunk in out.chunks_mut(8) {
        // splitmix64
        x = x.wrapping_add(0x9E3779B97F4A7C15);
        let mut z = x;
        z = (z ^ (z >> 30)).wrapping_mul(0xBF58476D1CE4E5B9);
        z = (z ^ (z >> 27)).wrapping_mul(0x94D049BB133111EB);
        z ^= z >> 31;
        chunk.copy_from_slice(&z.to_le_bytes());
    }
    out
}

pub fn rng_for(seed: u64, prop: &str, worker: usize, round: u64) -> TestRng {
    TestRng::from_seed(RngAlgorithm::ChaCha, &worker_seed(seed, prop, worker, round))
}

/// Run `cases_per_worker` generated cases on each of `workers` threads.
/// `test` is called with the case and the worker's statistics (only while no failure has been
/// seen on that worker: the closure is re-run during shrinking and must not count then).
pub fn run_cases<T>(
    prop: &str,
    seed: u64,
    workers: usize,
    cases_per_worker: u32,
    gen: GenFn,
    test: T,
) -> RunOut
where
    T: Fn(&Case, Option<&mut Stats>) -> Verdict + Sync,
{
    let test = &test;
    let results: Vec<(Stats, Option<Failure>)> = std::thread::scope(|s| {
        let handles: Vec<_> = (0..workers)
            .map(|w| {
                let gen = gen.clone();
                s.spawn(move || {
                    let cfg = Config {
                        cases: cases_per_worker,
                        failure_persistence: None,
                        max_shrink_iters: 20_000,
                        max_local_rejects: 1_000_000,
                        max_global_rejects: 1_000_000,
                        ..Config::default()
                    };
                    let mut runner = TestRunner::new_with_rng(cfg, rng_for(seed, prop, w, 0));
                    let stats = RefCell::new(Stats { sample_every: (cases_per_worker as u64 / 3).max(1), ..Stats::default() });
                    let failed = std::cell::Cell::new(false);
                    let last_fail: RefCell<Option<(String, serde_json::Value)>> = RefCell::new(None);
                    let strat = CaseStrategy { gen };
                    let r = runner.run(&strat, |case| {
                        let v = if failed.get() {
                            // a panic of harness code on a candidate produced by the shrinker must not hide the
                            // violation already found: such a candidate simply does not count as failing
                            match std::panic::catch_unwind(std::panic::AssertUnwindSafe(|| test(&case, None))) {
                                Ok(v) => v,
                                Err(_) => Verdict::Ok,
                            }
                        } else {
                            let mut st = stats.borrow_mut();
                            st.evaluations += 1;
                            // a panic outside the call under judgement (e.g. inside a built-in error type that the
                            // oracle itself calls) must not end the whole check: the case is skipped and counted;
                            // panics of deserr::deserialize itself are C12's business and are caught where they are judged
                            match std::panic::catch_unwind(std::panic::AssertUnwindSafe(|| test(&case, Some(&mut st)))) {
                                Ok(v) => v,
                                Err(_) => {
                                    st.class("skipped: panic outside the judged call");
                                    Verdict::Ok
                                }
                            }
                        };
                        match v {
                            Verdict::Ok => Ok(()),
                            Verdict::Known(sig) => {
                                if !failed.get() {
                                    *stats.borrow_mut().excluded_known.entry(sig).or_insert(0) += 1;
                                }
                                Ok(())
                            }
                            Verdict::Violation(sig, details) => {
                                failed.set(true);
                                *last_fail.borrow_mut() = Some((sig.clone(), details));
                                Err(TestCaseError::fail(sig))
                            }
                        }
                    });
                    let failure = match r {
                        Ok(()) => None,
                        Err(TestError::Fail(_, case)) => {
                            // re-evaluate the minimal case to get its own details
                            let (sig, details) = match test(&case, None) {
                                Verdict::Violation(s, d) => (s, d),
                                _ => last_fail.borrow().clone().unwrap_or_default(),
                            };
                            Some(Failure { case, signature: sig, details, worker: w })
                        }
                        Err(TestError::Abort(r)) => Some(Failure {
                            case: Case { ty: 0, payload: PV::Null, script: Script::all_continue(), aux: 0, faults: 0 },
                            signature: format!("runner-abort: {r}"),
                            details: serde_json::Value::Null,
                            worker: w,
                        }),
                    };
                    (stats.into_inner(), failure)
                })
            })
            .collect();
        handles.into_iter().map(|h| h.join().expect("worker panicked (harness bug)")).collect()
    });
    let mut stats = Stats::default();
    let mut failures = vec![];
    for (st, f) in results {
        stats.merge(st);
        if let Some(f) = f {
            failures.push(f);
        }
    }
    // keep one failure per signature, the smallest payload first
    failures.sort_by_key(|f| (f.signature.clone(), f.case.payload.size(), f.worker));
    failures.dedup_by(|a, b| a.signature == b.signature);
    RunOut { stats, failures }
}
