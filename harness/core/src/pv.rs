//! Payload values (`PV`): the harness' own, source-independent model of a payload.
//! Order-preserving, duplicate-capable maps; floats kept by bit pattern.

use serde_json::Value as J;
use std::fmt::Write;

#[derive(Clone, Debug)]
pub enum PV {
    Null,
    Bool(bool),
    /// non-negative integer
    Int(u64),
    /// strictly negative integer (canonical use: only values < 0)
    Neg(i64),
    Float(f64),
    Str(String),
    Seq(Vec<PV>),
    Map(Vec<(String, PV)>),
}

impl PartialEq for PV {
    fn eq(&self, o: &PV) -> bool {
        match (self, o) {
            (PV::Null, PV::Null) => true,
            (PV::Bool(a), PV::Bool(b)) => a == b,
            (PV::Int(a), PV::Int(b)) => a == b,
            (PV::Neg(a), PV::Neg(b)) => a == b,
            (PV::Float(a), PV::Float(b)) => a.to_bits() == b.to_bits() || (a.is_nan() && b.is_nan()),
            (PV::Str(a), PV::Str(b)) => a == b,
            (PV::Seq(a), PV::Seq(b)) => a == b,
            (PV::Map(a), PV::Map(b)) => a == b,
            _ => false,
        }
    }
}
impl Eq for PV {}

impl std::hash::Hash for PV {
    fn hash<H: std::hash::Hasher>(&self, h: &mut H) {
        std::mem::discriminant(self).hash(h);
        match self {
            PV::Null => {}
            PV::Bool(b) => b.hash(h),
            PV::Int(i) => i.hash(h),
            PV::Neg(i) => i.hash(h),
            PV::Float(f) => {
                if f.is_nan() {
                    0x7ff8u64.hash(h)
                } else {
                    f.to_bits().hash(h)
                }
            }
            PV::Str(s) => s.hash(h),
            PV::Seq(s) => s.hash(h),
            PV::Map(m) => m.hash(h),
        }
    }
}

#[derive(Clone, Copy, Debug, PartialEq, Eq, Hash, PartialOrd, Ord)]
pub enum Kind {
    Null,
    Boolean,
    Integer,
    NegativeInteger,
    Float,
    String,
    Sequence,
    Map,
}

pub const ALL_KINDS: [Kind; 8] = [
    Kind::Null,
    Kind::Boolean,
    Kind::Integer,
    Kind::NegativeInteger,
    Kind::Float,
    Kind::String,
    Kind::Sequence,
    Kind::Map,
];

impl Kind {
    pub fn from_deserr(k: deserr::ValueKind) -> Kind {
        match k {
            deserr::ValueKind::Null => Kind::Null,
            deserr::ValueKind::Boolean => Kind::Boolean,
            deserr::ValueKind::Integer => Kind::Integer,
            deserr::ValueKind::NegativeInteger => Kind::NegativeInteger,
            deserr::ValueKind::Float => Kind::Float,
            deserr::ValueKind::String => Kind::String,
            deserr::ValueKind::Sequence => Kind::Sequence,
            deserr::ValueKind::Map => Kind::Map,
        }
    }
    pub fn to_deserr(self) -> deserr::ValueKind {
        match self {
            Kind::Null => deserr::ValueKind::Null,
            Kind::Boolean => deserr::ValueKind::Boolean,
            Kind::Integer => deserr::ValueKind::Integer,
            Kind::NegativeInteger => deserr::ValueKind::NegativeInteger,
            Kind::Float => deserr::ValueKind::Float,
            Kind::String => deserr::ValueKind::String,
            Kind::Sequence => deserr::ValueKind::Sequence,
            Kind::Map => deserr::ValueKind::Map,
        }
    }
}

#[derive(Clone, Debug, PartialEq, Eq, Hash, PartialOrd, Ord)]
pub enum Step {
    Key(String),
    Index(usize),
}

pub type Path = Vec<Step>;

pub fn path_str(p: &[Step]) -> String {
    let mut s = String::new();
    for st in p {
        match st {
            Step::Key(k) => {
                let _ = write!(s, ".{k}");
            }
            Step::Index(i) => {
                let _ = write!(s, "[{i}]");
            }
        }
    }
    if s.is_empty() {
        s.push_str("<root>");
    }
    s
}

pub fn path_from_ref(l: deserr::ValuePointerRef) -> Path {
    // independent of ValuePointerRef::to_owned: walk the public enum ourselves
    let mut out = vec![];
    let mut cur = l;
    loop {
        match cur {
            deserr::ValuePointerRef::Origin => break,
            deserr::ValuePointerRef::Key { key, prev } => {
                out.push(Step::Key(key.to_string()));
                cur = *prev;
            }
            deserr::ValuePointerRef::Index { index, prev } => {
                out.push(Step::Index(index));
                cur = *prev;
            }
        }
    }
    out.reverse();
    out
}

pub fn is_prefix(a: &[Step], b: &[Step]) -> bool {
    a.len() <= b.len() && a.iter().zip(b.iter()).all(|(x, y)| x == y)
}

impl PV {
    pub fn kind(&self) -> Kind {
        match self {
            PV::Null => Kind::Null,
            PV::Bool(_) => Kind::Boolean,
            PV::Int(_) => Kind::Integer,
            PV::Neg(_) => Kind::NegativeInteger,
            PV::Float(_) => Kind::Float,
            PV::Str(_) => Kind::String,
            PV::Seq(_) => Kind::Sequence,
            PV::Map(_) => Kind::Map,
        }
    }

    pub fn int(i: i128) -> PV {
        if i >= 0 {
            PV::Int(i as u64)
        } else {
            PV::Neg(i as i64)
        }
    }

    pub fn map(entries: Vec<(&str, PV)>) -> PV {
        PV::Map(entries.into_iter().map(|(k, v)| (k.to_string(), v)).collect())
    }

    pub fn str(s: &str) -> PV {
        PV::Str(s.to_string())
    }

    /// number of nodes
    pub fn size(&self) -> usize {
        match self {
            PV::Seq(s) => 1 + s.iter().map(|x| x.size()).sum::<usize>(),
            PV::Map(m) => 1 + m.iter().map(|x| x.1.size()).sum::<usize>(),
            _ => 1,
        }
    }

    pub fn depth(&self) -> usize {
        match self {
            PV::Seq(s) => 1 + s.iter().map(|x| x.depth()).max().unwrap_or(0),
            PV::Map(m) => 1 + m.iter().map(|x| x.1.depth()).max().unwrap_or(0),
            _ => 0,
        }
    }

    pub fn has_dup_keys(&self) -> bool {
        match self {
            PV::Seq(s) => s.iter().any(|x| x.has_dup_keys()),
            PV::Map(m) => {
                let mut ks: Vec<&str> = m.iter().map(|x| x.0.as_str()).collect();
                ks.sort();
                ks.windows(2).any(|w| w[0] == w[1]) || m.iter().any(|x| x.1.has_dup_keys())
            }
            _ => false,
        }
    }

    /// every key that occurs more than once in an object occurs with one and the same value
    /// (then neither "first wins" nor "last wins" nor the members' order can change any outcome)
    pub fn dups_are_clones(&self) -> bool {
        match self {
            PV::Seq(s) => s.iter().all(|x| x.dups_are_clones()),
            PV::Map(m) => {
                for (i, (k, v)) in m.iter().enumerate() {
                    if m[..i].iter().any(|(k2, v2)| k2 == k && v2 != v) {
                        return false;
                    }
                }
                m.iter().all(|x| x.1.dups_are_clones())
            }
            _ => true,
        }
    }

    /// number of non-empty objects in the payload
    pub fn count_objects(&self) -> usize {
        match self {
            PV::Seq(s) => s.iter().map(|x| x.count_objects()).sum(),
            PV::Map(m) => (!m.is_empty()) as usize + m.iter().map(|x| x.1.count_objects()).sum::<usize>(),
            _ => 0,
        }
    }

    /// the payload with one member of its `which`-th non-empty object (pre-order) repeated verbatim at
    /// position `at` (modulo); the repeated member is the `member`-th (modulo)
    pub fn with_cloned_member(&self, which: usize, member: usize, at: usize) -> PV {
        fn go(pv: &PV, left: &mut isize, member: usize, at: usize) -> PV {
            match pv {
                PV::Seq(s) => PV::Seq(s.iter().map(|x| go(x, left, member, at)).collect()),
                PV::Map(m) => {
                    let mut here = false;
                    if !m.is_empty() {
                        if *left == 0 {
                            here = true;
                        }
                        *left -= 1;
                    }
                    let mut m2: Vec<(String, PV)> = m.iter().map(|(k, v)| (k.clone(), go(v, left, member, at))).collect();
                    if here {
                        let e = m2[member % m2.len()].clone();
                        let pos = at % (m2.len() + 1);
                        m2.insert(pos, e);
                    }
                    PV::Map(m2)
                }
                x => x.clone(),
            }
        }
        let mut left = which as isize;
        go(self, &mut left, member, at)
    }

    pub fn has_nonfinite(&self) -> bool {
        match self {
            PV::Float(f) => !f.is_finite(),
            PV::Seq(s) => s.iter().any(|x| x.has_nonfinite()),
            PV::Map(m) => m.iter().any(|x| x.1.has_nonfinite()),
            _ => false,
        }
    }

    /// Resolve a path; with duplicate keys returns all matching nodes (first-level candidates).
    pub fn resolve_all<'a>(&'a self, p: &[Step]) -> Vec<&'a PV> {
        if p.is_empty() {
            return vec![self];
        }
        let mut out = vec![];
        match (&p[0], self) {
            (Step::Key(k), PV::Map(m)) => {
                for (kk, v) in m {
                    if kk == k {
                        out.extend(v.resolve_all(&p[1..]));
                    }
                }
            }
            (Step::Index(i), PV::Seq(s)) => {
                if let Some(v) = s.get(*i) {
                    out.extend(v.resolve_all(&p[1..]));
                }
            }
            _ => {}
        }
        out
    }

    /// The view serde_json can hold: keys sorted, duplicates collapsed (last wins, like
    /// serde_json's own insert), non-finite floats cannot be represented (None).
    pub fn to_json(&self) -> Option<J> {
        Some(match self {
            PV::Null => J::Null,
            PV::Bool(b) => J::Bool(*b),
            PV::Int(i) => J::Number((*i).into()),
            PV::Neg(i) => J::Number((*i).into()),
            PV::Float(f) => J::Number(serde_json::Number::from_f64(*f)?),
            PV::Str(s) => J::String(s.clone()),
            PV::Seq(s) => J::Array(s.iter().map(|x| x.to_json()).collect::<Option<Vec<_>>>()?),
            PV::Map(m) => {
                let mut o = serde_json::Map::new();
                for (k, v) in m {
                    o.insert(k.clone(), v.to_json()?);
                }
                J::Object(o)
            }
        })
    }

    /// Harness-side reading of a serde_json value (decided from the *printed form* of
    /// numbers, independently of deserr's bridge).
    pub fn from_json(j: &J) -> PV {
        match j {
            J::Null => PV::Null,
            J::Bool(b) => PV::Bool(*b),
            J::Number(n) => {
                let s = n.to_string();
                classify_number_text(&s)
            }
            J::String(s) => PV::Str(s.clone()),
            J::Array(a) => PV::Seq(a.iter().map(PV::from_json).collect()),
            J::Object(o) => PV::Map(o.iter().map(|(k, v)| (k.clone(), PV::from_json(v))).collect()),
        }
    }

    /// canonical (json-view) PV: sorted, de-duplicated keys
    pub fn canonical(&self) -> Option<PV> {
        self.to_json().map(|j| PV::from_json(&j))
    }

    /// Order- and duplicate-preserving JSON encoding used in replay files and samples.
    pub fn encode(&self) -> J {
        match self {
            PV::Null => J::Null,
            PV::Bool(b) => J::Bool(*b),
            PV::Int(i) => serde_json::json!({"int": i.to_string()}),
            PV::Neg(i) => serde_json::json!({"neg": i.to_string()}),
            PV::Float(f) => serde_json::json!({"f64bits": format!("{:#018x}", f.to_bits()), "approx": format!("{f:e}")}),
            PV::Str(s) => J::String(s.clone()),
            PV::Seq(s) => J::Array(s.iter().map(|x| x.encode()).collect()),
            PV::Map(m) => serde_json::json!({"map": m.iter().map(|(k,v)| J::Array(vec![J::String(k.clone()), v.encode()])).collect::<Vec<_>>()}),
        }
    }

    pub fn decode(j: &J) -> Result<PV, String> {
        Ok(match j {
            J::Null => PV::Null,
            J::Bool(b) => PV::Bool(*b),
            J::String(s) => PV::Str(s.clone()),
            J::Array(a) => PV::Seq(a.iter().map(PV::decode).collect::<Result<_, _>>()?),
            J::Object(o) => {
                if let Some(v) = o.get("int") {
                    PV::Int(v.as_str().ok_or("int")?.parse().map_err(|e| format!("{e}"))?)
                } else if let Some(v) = o.get("neg") {
                    PV::Neg(v.as_str().ok_or("neg")?.parse().map_err(|e| format!("{e}"))?)
                } else if let Some(v) = o.get("f64bits") {
                    let s = v.as_str().ok_or("f64bits")?;
                    let bits = u64::from_str_radix(s.trim_start_matches("0x"), 16).map_err(|e| format!("{e}"))?;
                    PV::Float(f64::from_bits(bits))
                } else if let Some(v) = o.get("map") {
                    let mut m = vec![];
                    for e in v.as_array().ok_or("map")? {
                        let e = e.as_array().ok_or("entry")?;
                        m.push((e[0].as_str().ok_or("key")?.to_string(), PV::decode(&e[1])?));
                    }
                    PV::Map(m)
                } else {
                    return Err("bad object".into());
                }
            }
            J::Number(_) => return Err("bare number".into()),
        })
    }

    /// compact human-readable rendering (order/dups preserved) for samples
    pub fn show(&self) -> String {
        let mut s = String::new();
        self.show_into(&mut s);
        s
    }
    fn show_into(&self, s: &mut String) {
        match self {
            PV::Null => s.push_str("null"),
            PV::Bool(b) => {
                let _ = write!(s, "{b}");
            }
            PV::Int(i) => {
                let _ = write!(s, "{i}");
            }
            PV::Neg(i) => {
                let _ = write!(s, "{i}");
            }
            PV::Float(f) => {
                let _ = write!(s, "{f:?}f");
            }
            PV::Str(x) => {
                let _ = write!(s, "{x:?}");
            }
            PV::Seq(v) => {
                s.push('[');
                for (i, x) in v.iter().enumerate() {
                    if i > 0 {
                        s.push(',');
                    }
                    x.show_into(s);
                }
                s.push(']');
            }
            PV::Map(m) => {
                s.push('{');
                for (i, (k, x)) in m.iter().enumerate() {
                    if i > 0 {
                        s.push(',');
                    }
                    let _ = write!(s, "{k:?}:");
                    x.show_into(s);
                }
                s.push('}');
            }
        }
    }
}

/// Number class from the printed form of a JSON number: no '.', 'e', 'E' and no '-' => Int;
/// '-' and no fraction/exponent => Neg (if it fits i64); everything else Float.
pub fn classify_number_text(s: &str) -> PV {
    let floaty = s.contains('.') || s.contains('e') || s.contains('E');
    if !floaty {
        if let Some(rest) = s.strip_prefix('-') {
            let _ = rest;
            if let Ok(i) = s.parse::<i64>() {
                if i < 0 {
                    return PV::Neg(i);
                } else {
                    // "-0" as integer literal: serde_json parses -0 as float -0.0; keep Float
                    return PV::Float(s.parse::<f64>().unwrap());
                }
            }
        } else if let Ok(u) = s.parse::<u64>() {
            return PV::Int(u);
        }
    }
    PV::Float(s.parse::<f64>().unwrap())
}

/// Pre-order numbering of nodes: node id -> path. Id 0 is the root.
pub fn node_paths(pv: &PV) -> Vec<Path> {
    fn rec(pv: &PV, cur: &mut Path, out: &mut Vec<Path>) {
        out.push(cur.clone());
        match pv {
            PV::Seq(s) => {
                for (i, x) in s.iter().enumerate() {
                    cur.push(Step::Index(i));
                    rec(x, cur, out);
                    cur.pop();
                }
            }
            PV::Map(m) => {
                for (k, x) in m {
                    cur.push(Step::Key(k.clone()));
                    rec(x, cur, out);
                    cur.pop();
                }
            }
            _ => {}
        }
    }
    let mut out = vec![];
    rec(pv, &mut vec![], &mut out);
    out
}
