//! `OV`: a second, instrumented `IntoValue` implementation.  Order-preserving,
//! duplicate-capable, may hold non-finite floats; `into_value` logs a visit of the node.

use crate::pv::{Kind, PV};
use crate::trace::{self, Event};
use deserr::{IntoValue, Map, Sequence, Value, ValueKind};

#[derive(Clone, Debug)]
pub struct OV {
    pub id: u32,
    pub v: OVK,
}

#[derive(Clone, Debug)]
pub enum OVK {
    Null,
    Bool(bool),
    Int(u64),
    Neg(i64),
    Float(f64),
    Str(String),
    Seq(Vec<OV>),
    Map(Vec<(String, OV)>),
}

impl OV {
    /// node ids are assigned in pre-order (same numbering as `pv::node_paths`)
    pub fn from_pv(pv: &PV) -> OV {
        fn rec(pv: &PV, next: &mut u32) -> OV {
            let id = *next;
            *next += 1;
            let v = match pv {
                PV::Null => OVK::Null,
                PV::Bool(b) => OVK::Bool(*b),
                PV::Int(i) => OVK::Int(*i),
                PV::Neg(i) => OVK::Neg(*i),
                PV::Float(f) => OVK::Float(*f),
                PV::Str(s) => OVK::Str(s.clone()),
                PV::Seq(s) => OVK::Seq(s.iter().map(|x| rec(x, next)).collect()),
                PV::Map(m) => OVK::Map(m.iter().map(|(k, x)| (k.clone(), rec(x, next))).collect()),
            };
            OV { id, v }
        }
        rec(pv, &mut 0)
    }
}

pub struct OSeq(pub Vec<OV>);
pub struct OMap(pub Vec<(String, OV)>);

impl Sequence for OSeq {
    type Value = OV;
    type Iter = std::vec::IntoIter<OV>;
    fn len(&self) -> usize {
        self.0.len()
    }
    fn into_iter(self) -> Self::Iter {
        IntoIterator::into_iter(self.0)
    }
}

impl Map for OMap {
    type Value = OV;
    type Iter = std::vec::IntoIter<(String, OV)>;
    fn len(&self) -> usize {
        self.0.len()
    }
    fn remove(&mut self, key: &str) -> Option<OV> {
        let i = self.0.iter().position(|(k, _)| k == key)?;
        Some(self.0.remove(i).1)
    }
    fn into_iter(self) -> Self::Iter {
        IntoIterator::into_iter(self.0)
    }
}

impl IntoValue for OV {
    type Sequence = OSeq;
    type Map = OMap;

    fn kind(&self) -> ValueKind {
        match &self.v {
            OVK::Null => Kind::Null,
            OVK::Bool(_) => Kind::Boolean,
            OVK::Int(_) => Kind::Integer,
            OVK::Neg(_) => Kind::NegativeInteger,
            OVK::Float(_) => Kind::Float,
            OVK::Str(_) => Kind::String,
            OVK::Seq(_) => Kind::Sequence,
            OVK::Map(_) => Kind::Map,
        }
        .to_deserr()
    }

    fn into_value(self) -> Value<Self> {
        trace::push(Event::Visit(self.id));
        match self.v {
            OVK::Null => Value::Null,
            OVK::Bool(b) => Value::Boolean(b),
            OVK::Int(i) => Value::Integer(i),
            OVK::Neg(i) => Value::NegativeInteger(i),
            OVK::Float(f) => Value::Float(f),
            OVK::Str(s) => Value::String(s),
            OVK::Seq(s) => Value::Sequence(OSeq(s)),
            OVK::Map(m) => Value::Map(OMap(m)),
        }
    }
}
