//! Evidence files, replay files, known findings and the exit protocol.

use crate::runner::{Failure, Stats};
use serde_json::{json, Value as J};
use std::collections::BTreeMap;
use std::path::PathBuf;

pub fn verif_dir() -> PathBuf {
    std::env::var("VERIF_DIR").map(PathBuf::from).unwrap_or_else(|_| PathBuf::from("/verif"))
}

pub fn seed() -> u64 {
    std::env::var("VERIF_SEED").ok().and_then(|s| s.trim().parse::<u64>().ok()).unwrap_or(1)
}

/// thorough runs over several generated program sets: (this round, number of rounds)
pub fn round() -> (u64, u64) {
    let r = std::env::var("DV_ROUND").ok().and_then(|s| s.parse().ok()).unwrap_or(0);
    let n = std::env::var("DV_ROUNDS").ok().and_then(|s| s.parse().ok()).unwrap_or(1u64).max(1);
    (r, n)
}

#[derive(Clone, Copy, Debug, PartialEq, Eq)]
pub enum Tier {
    Quick,
    Thorough,
}
impl Tier {
    pub fn name(self) -> &'static str {
        match self {
            Tier::Quick => "quick",
            Tier::Thorough => "thorough",
        }
    }
    pub fn pick<T>(self, q: T, t: T) -> T {
        match self {
            Tier::Quick => q,
            Tier::Thorough => t,
        }
    }
}

#[derive(Clone, Debug)]
pub struct KnownFinding {
    pub property: String,
    pub signature: String,
    pub status: String,
    pub what: String,
}

pub fn load_known() -> Vec<KnownFinding> {
    let p = verif_dir().join("known_findings.json");
    let Ok(s) = std::fs::read_to_string(&p) else { return vec![] };
    let Ok(j) = serde_json::from_str::<J>(&s) else { return vec![] };
    let mut out = vec![];
    for e in j.get("findings").and_then(|f| f.as_array()).cloned().unwrap_or_default() {
        out.push(KnownFinding {
            property: e["property"].as_str().unwrap_or("").to_string(),
            signature: e["signature"].as_str().unwrap_or("").to_string(),
            status: e["status"].as_str().unwrap_or("").to_string(),
            what: e["what"].as_str().unwrap_or("").to_string(),
        });
    }
    out
}

/// the open findings of one property: signature -> description
pub fn open_known(prop: &str) -> BTreeMap<String, String> {
    load_known()
        .into_iter()
        .filter(|k| k.property == prop && k.status == "open")
        .map(|k| (k.signature, k.what))
        .collect()
}

pub struct Report {
    pub prop: String,
    pub tier: Tier,
    pub seed: u64,
    pub rule: String,
    pub stats: Stats,
    pub exhaustive: bool,
    pub assumptions: Vec<String>,
    pub extra: BTreeMap<String, J>,
    pub failures: Vec<(String, J, Option<J>)>, // (signature, details, replay payload)
    pub started: std::time::Instant,
}

impl Report {
    pub fn new(prop: &str, tier: Tier, rule: &str) -> Report {
        Report {
            prop: prop.to_string(),
            tier,
            seed: seed(),
            rule: rule.to_string(),
            stats: Stats::default(),
            exhaustive: false,
            assumptions: vec![],
            extra: BTreeMap::new(),
            failures: vec![],
            started: std::time::Instant::now(),
        }
    }

    pub fn add_failures(&mut self, fs: Vec<Failure>, describe: impl Fn(&Failure) -> J) {
        for f in fs {
            let replay = describe(&f);
            self.failures.push((f.signature.clone(), f.details.clone(), Some(replay)));
        }
    }

    pub fn fail(&mut self, signature: &str, details: J, replay: J) {
        // one per signature
        if self.failures.iter().any(|f| f.0 == signature) {
            return;
        }
        self.failures.push((signature.to_string(), details, Some(replay)));
    }

    /// write evidence + replays, print the protocol lines, return the exit code
    pub fn finish(mut self) -> i32 {
        let dir = verif_dir();
        let _ = std::fs::create_dir_all(dir.join("evidence"));
        let _ = std::fs::create_dir_all(dir.join("replays"));
        let known = open_known(&self.prop);
        // failures with a known signature that reached here (enumerators use this path)
        let mut violations = vec![];
        for (sig, details, replay) in std::mem::take(&mut self.failures) {
            if known.contains_key(&sig) {
                *self.stats.excluded_known.entry(sig).or_insert(0) += 1;
            } else {
                violations.push((sig, details, replay));
            }
        }
        for (sig, what) in &known {
            let n = self.stats.excluded_known.get(sig).copied().unwrap_or(0);
            println!("KNOWN-FINDING: property={} {} [signature {}; {} case(s) excluded in this run]", self.prop, what, sig, n);
        }
        let mut vio_paths = vec![];
        for (sig, details, replay) in &violations {
            let mut h = std::collections::hash_map::DefaultHasher::new();
            std::hash::Hash::hash(&(sig, replay.as_ref().map(|r| r.to_string())), &mut h);
            let name = format!("{}-{:016x}.json", self.prop, std::hash::Hasher::finish(&h));
            let path = dir.join("replays").join(&name);
            let body = json!({
                "property": self.prop,
                "tier": self.tier.name(),
                "seed": self.seed,
                "signature": sig,
                "details": details,
                "case": replay,
            });
            let _ = std::fs::write(&path, serde_json::to_string_pretty(&body).unwrap());
            println!("VIOLATION property={} replay={}", self.prop, path.display());
            println!("  signature: {sig}");
            println!("  details: {}", serde_json::to_string(details).unwrap_or_default());
            vio_paths.push(path.display().to_string());
        }
        let mut wall = self.started.elapsed().as_secs_f64();
        // several rounds (program sets) of one thorough run accumulate into one evidence file
        let (round, rounds) = round();
        let nt_path = dir.join("work").join(format!("nontrivial.{}.json", self.prop));
        let ev_path = dir.join("evidence").join(format!("{}.json", self.prop));
        let mut prev_violations = 0i64;
        let mut program_seeds: Vec<J> = vec![];
        if round > 0 {
            if let Ok(prev) = std::fs::read_to_string(&ev_path).map_err(|_| ()).and_then(|s| serde_json::from_str::<J>(&s).map_err(|_| ())) {
                let c = &prev["coverage"];
                self.stats.evaluations += c["evaluations"].as_u64().unwrap_or(0);
                self.stats.executions = self.stats.executions.max(self.stats.evaluations.min(self.stats.executions)) + c["executions_of_code_under_test"].as_u64().unwrap_or(0);
                if let Some(m) = c["classes"].as_object() {
                    for (k, v) in m {
                        *self.stats.classes.entry(k.clone()).or_insert(0) += v.as_u64().unwrap_or(0);
                    }
                }
                if let Some(m) = c["excluded_known"].as_object() {
                    for (k, v) in m {
                        *self.stats.excluded_known.entry(k.clone()).or_insert(0) += v.as_u64().unwrap_or(0);
                    }
                }
                if let Some(a) = c["samples"].as_array() {
                    let mut all = a.clone();
                    all.extend(self.stats.samples.drain(..));
                    all.truncate(30);
                    self.stats.samples = all;
                }
                if let Some(a) = c["program_seeds"].as_array() {
                    program_seeds = a.clone();
                }
                wall += prev["wall_s"].as_f64().unwrap_or(0.0);
                prev_violations = prev["violations"].as_i64().unwrap_or(0);
            }
            if let Ok(s) = std::fs::read_to_string(&nt_path) {
                if let Ok(v) = serde_json::from_str::<Vec<u64>>(&s) {
                    self.stats.nontrivial.extend(v);
                }
            }
        }
        if let Some(ps) = self.extra.get("program_seed") {
            program_seeds.push(ps.clone());
        }
        if rounds > 1 {
            self.extra.insert("program_seeds".into(), J::Array(program_seeds));
            self.extra.insert("program_sets".into(), json!(round + 1));
            if round + 1 < rounds {
                let _ = std::fs::create_dir_all(dir.join("work"));
                let v: Vec<u64> = self.stats.nontrivial.iter().copied().collect();
                let _ = std::fs::write(&nt_path, serde_json::to_string(&v).unwrap_or_default());
            } else {
                let _ = std::fs::remove_file(&nt_path);
            }
        }
        let mut coverage = json!({
            "evaluations": self.stats.evaluations,
            "executions_of_code_under_test": self.stats.executions.max(self.stats.evaluations),
            "distinct_nontrivial": self.stats.nontrivial.len(),
            "rule": self.rule,
            "samples": self.stats.samples,
            "classes": self.stats.classes,
            "excluded_known": self.stats.excluded_known,
            "exhaustive": self.exhaustive,
        });
        for (k, v) in &self.extra {
            coverage[k] = v.clone();
        }
        let ev = json!({
            "property_id": self.prop,
            "tier": self.tier.name(),
            "seed": self.seed,
            "level": "exploration",
            "coverage": coverage,
            "assumptions": self.assumptions,
            "wall_s": wall,
            "violations": violations.len() as i64 + prev_violations,
            "violation_replays": vio_paths,
        });
        let path = dir.join("evidence").join(format!("{}.json", self.prop));
        std::fs::write(&path, serde_json::to_string_pretty(&ev).unwrap()).expect("cannot write evidence");
        println!(
            "{} {}: {} cases ({} executions), {} distinct non-trivial, {} violation(s), {:.1}s",
            self.prop,
            self.tier.name(),
            self.stats.evaluations,
            self.stats.executions.max(self.stats.evaluations),
            self.stats.nontrivial.len(),
            violations.len(),
            wall
        );
        if let Some(n) = self.stats.classes.get("skipped: panic outside the judged call") {
            println!("WARNING: {n} case(s) skipped because code outside the judged call panicked (see C12 for panics of deserr itself)");
        }
        if violations.is_empty() {
            0
        } else {
            1
        }
    }
}
