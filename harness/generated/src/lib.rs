#![allow(warnings)]
//! `types.rs` is (re)written by dv_gen on every run.
mod types;
pub use types::*;
