#![allow(warnings)]
//! A FROZEN generated program set (`types.rs`, committed): the set the saved regression cases over
//! generated types were found on. Unlike `dv_generated`, it does not change with the seed or with
//! the generator, so those cases stay replayable. Written by tools/freeze_set.py.
mod types;
pub use types::*;
