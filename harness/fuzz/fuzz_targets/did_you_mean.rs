#![no_main]
//! bytes -> (received, accepted list) -> the C18 oracle.
use libfuzzer_sys::fuzz_target;

fuzz_target!(|data: &[u8]| {
    let Ok(text) = std::str::from_utf8(data) else { return };
    if text.contains('`') {
        return;
    }
    let mut parts = text.split('\n');
    let received = parts.next().unwrap_or("").to_string();
    let accepted: Vec<String> = parts.take(8).map(|s| s.to_string()).collect();
    if received.len() > 64 || accepted.iter().any(|a| a.len() > 64) {
        return;
    }
    if let Err((sig, what)) = dv_core::dym::check(&received, &accepted) {
        eprintln!("FUZZ-VIOLATION property=C18 signature={sig}\n  {what}");
        eprintln!("FUZZ-CASE {}", serde_json::json!({"property": "C18", "signature": sig, "received": received, "accepted": accepted}));
        std::process::abort();
    }
});
