#![no_main]
//! bytes -> decision stream of the type-directed payload generator -> (catalogue type: hand-written
//! or generated, payload, answer script); the semantic oracles of C01, C03, C04, C12 (and C02 for
//! modelled types) are evaluated inside the target.
use dv_core::entry::Src;
use dv_core::genp::{Gen, GenCfg};
use dv_core::trace::Script;
use libfuzzer_sys::fuzz_target;
use std::sync::OnceLock;

struct ByteRng<'a> {
    data: &'a [u8],
    pos: usize,
}
impl<'a> rand::RngCore for ByteRng<'a> {
    fn next_u32(&mut self) -> u32 {
        let mut b = [0u8; 4];
        self.fill_bytes(&mut b);
        u32::from_le_bytes(b)
    }
    fn next_u64(&mut self) -> u64 {
        let mut b = [0u8; 8];
        self.fill_bytes(&mut b);
        u64::from_le_bytes(b)
    }
    fn fill_bytes(&mut self, dst: &mut [u8]) {
        for d in dst.iter_mut() {
            *d = self.data.get(self.pos).copied().unwrap_or(0);
            self.pos += 1;
        }
    }
}

static REG: OnceLock<Vec<(dv_core::entry::Entry, bool)>> = OnceLock::new();

static ONLY: OnceLock<Option<String>> = OnceLock::new();

fn violation(prop: &str, sig: &str, what: &str, ty: &str, payload: &dv_core::pv::PV, script: &Script, src: Src) {
    // a campaign run for one property only stops for violations of that property
    let only = ONLY.get_or_init(|| std::env::var("DV_FUZZ_PROP").ok());
    if let Some(o) = only {
        if o != prop {
            return;
        }
    }
    let aux = if src == Src::Ov { "0" } else { "1" };
    eprintln!("FUZZ-VIOLATION property={prop} signature={sig}\n  type={ty}\n  payload={}\n  script={}\n  {what}", payload.show(), script.show());
    eprintln!("FUZZ-CASE {}", serde_json::json!({"property": prop, "signature": sig, "what": what, "case": {"type": ty, "payload": payload.encode(), "payload_shown": payload.show(), "script": script.show(), "aux": aux, "program_seed": dv_generated::PROGRAM_SEED}}));
    std::process::abort();
}

fuzz_target!(|data: &[u8]| {
    let reg = REG.get_or_init(|| {
        std::panic::set_hook(Box::new(|_| {}));
        // hand-written catalogue plus the randomly generated derive inputs of the current program set
        let mut v = dv_core::catalogue::all_hand();
        v.extend(dv_generated::entries().into_iter().map(|e| (e, true)));
        v
    });
    if data.len() < 4 {
        return;
    }
    let ti = (u16::from_le_bytes([data[0], data[1]]) as usize) % reg.len();
    let mode = data[2];
    let fault = [0.0, 0.05, 0.15, 0.3, 0.5][(data[3] % 5) as usize];
    let (e, modelled) = &reg[ti];
    let mut rng = ByteRng { data, pos: 4 };
    let cfg = GenCfg { fault, dup_keys: mode & 1 == 1, nonfinite: mode & 2 == 2, alt_key_spellings: mode & 4 == 4, ..GenCfg::default() };
    let mut g = Gen::new(&mut rng, cfg);
    let payload = if mode & 0x18 == 0x18 { g.blind(0) } else { g.typed(&e.ty, 0) };
    let n = g.below(10);
    let answers: Vec<bool> = (0..n).map(|_| g.below(4) != 0).collect();
    let script = Script { answers, default: g.below(3) != 0 };
    let src = if payload.has_dup_keys() || payload.has_nonfinite() || mode & 0x20 == 0 { Src::Ov } else { Src::Json };
    let out = (e.rec)(&payload, src, &script);
    if let Some(p) = &out.panicked {
        violation("C12", "C12|panic", p, &e.name, &payload, &script, src);
    }
    if let Err((sig, what)) = dv_core::oracles::c01(e, &payload, &out) {
        violation("C01", &sig, &what, &e.name, &payload, &script, src);
    }
    if let Err((sig, what)) = dv_core::oracles::c04(e, &payload, src, &out) {
        violation("C04", &sig, &what, &e.name, &payload, &script, src);
    }
    if let Err((sig, what)) = dv_core::oracles::c03_random(e, &payload, src, &out) {
        violation("C03", &sig, &what, &e.name, &payload, &script, src);
    }
    if *modelled && !payload.has_dup_keys() && !payload.has_nonfinite() {
        let c = dv_core::compare::compare(e, &payload, src);
        if c.out.panicked.is_none() {
            if let Err(w) = &c.reports {
                violation("C02", "C02|reports-differ", w, &e.name, &payload, &Script::all_continue(), src);
            }
            if let Err(w) = &c.final_reports {
                violation("C02", "C02|final-error-differs", w, &e.name, &payload, &Script::all_continue(), src);
            }
        }
    }
});
