#![no_main]
//! bytes as JSON text -> serde_json::from_slice; on success the C13 oracle (round trip both
//! ways, kind agreement at every node, number class from the printed form / the literal).
use libfuzzer_sys::fuzz_target;

fuzz_target!(|data: &[u8]| {
    let Ok(v) = serde_json::from_slice::<serde_json::Value>(data) else { return };
    if let Err((sig, what)) = dv_core::bridge::check_doc(&v) {
        eprintln!("FUZZ-VIOLATION property=C13 signature={sig}\n  {what}");
        eprintln!("FUZZ-CASE {}", serde_json::json!({"property": "C13", "signature": sig, "json_text": String::from_utf8_lossy(data)}));
        std::process::abort();
    }
    if let Ok(text) = std::str::from_utf8(data) {
        let t = text.trim();
        if !t.is_empty() && t.len() < 400 && t.bytes().all(|b| b.is_ascii_digit() || matches!(b, b'-' | b'+' | b'.' | b'e' | b'E')) {
            if let Err((sig, what)) = dv_core::bridge::check_literal(t) {
                eprintln!("FUZZ-VIOLATION property=C13 signature={sig}\n  {what}");
                eprintln!("FUZZ-CASE {}", serde_json::json!({"property": "C13", "signature": sig, "json_text": t}));
                std::process::abort();
            }
        }
    }
});
