//! C17 — expected-kinds phrase depends only on the set of kinds and covers it exactly.

use deserr::errors::json::value_kinds_description_json as desc;
use dv_core::evidence::{Report, Tier};
use dv_core::pv::{Kind, ALL_KINDS};
use dv_core::runner::rng_for;
use rand::Rng;
use serde_json::json;
use std::collections::{BTreeMap, BTreeSet};

fn call(seq: &[Kind]) -> Result<String, String> {
    let ks: Vec<deserr::ValueKind> = seq.iter().map(|k| k.to_deserr()).collect();
    std::panic::catch_unwind(|| desc(&ks)).map_err(dv_core::entry::panic_msg)
}

struct Oracle {
    singles: BTreeMap<Kind, String>,
}

impl Oracle {
    /// expected item list for a set of kinds, in the fixed kind order
    fn items(&self, set: &BTreeSet<Kind>) -> Vec<String> {
        let mut out = vec![];
        let has = |k: Kind| set.contains(&k);
        let mut numeric_done = false;
        for k in ALL_KINDS {
            if !has(k) {
                continue;
            }
            match k {
                Kind::Integer | Kind::NegativeInteger | Kind::Float => {
                    if numeric_done {
                        continue;
                    }
                    if has(Kind::Float) {
                        out.push("a number".to_string());
                        numeric_done = true;
                    } else if has(Kind::Integer) && has(Kind::NegativeInteger) {
                        out.push("an integer".to_string());
                        numeric_done = true;
                    } else {
                        out.push(self.singles[&k].clone());
                    }
                }
                _ => out.push(self.singles[&k].clone()),
            }
        }
        out
    }
    fn join(items: &[String]) -> String {
        match items.len() {
            0 => String::new(),
            1 => items[0].clone(),
            2 => format!("{} or {}", items[0], items[1]),
            n => format!("{}, or {}", items[..n - 1].join(", "), items[n - 1]),
        }
    }
}

fn check_seq(o: &Oracle, seq: &[Kind], empty_phrase: &str) -> Result<(), (String, String)> {
    let got = call(seq).map_err(|p| ("panic".to_string(), format!("panicked: {p}")))?;
    let set: BTreeSet<Kind> = seq.iter().copied().collect();
    let sorted: Vec<Kind> = set.iter().copied().collect();
    // (i) metamorphic: depends only on the set
    let canon = call(&sorted).map_err(|p| ("panic".to_string(), format!("panicked: {p}")))?;
    if got != canon {
        return Err((
            "order-or-multiplicity-dependent".into(),
            format!("description({seq:?}) = {got:?} but description({sorted:?}) = {canon:?}"),
        ));
    }
    // (ii) covers the set exactly, in the stated grammar
    let items = o.items(&set);
    let want = Oracle::join(&items);
    if got != want {
        return Err(("phrase-not-exact-cover".into(), format!("description({seq:?}) = {got:?}, expected {want:?}")));
    }
    if got == empty_phrase || got.is_empty() {
        return Err(("collides-with-empty-fallback".into(), format!("description({seq:?}) = {got:?}")));
    }
    Ok(())
}

fn mk_oracle() -> Result<(Oracle, String), String> {
    let mut singles = BTreeMap::new();
    for k in ALL_KINDS {
        singles.insert(k, call(&[k])?);
    }
    let empty = call(&[])?;
    Ok((Oracle { singles }, empty))
}

pub fn run(tier: Tier) -> i32 {
    let mut rep = Report::new(
        "C17",
        tier,
        "all kind sequences of length 1..=5 (8+64+512+4096+32768) enumerated, plus random sequences of length 6..=14 with repetitions and long sequences (15..300 entries, sizes around typical buffer thresholds) in which a kind first occurs near the end; \
         oracle: phrase(seq) == phrase(sorted distinct set) and == join(expected items) with singleton names taken from the function's own \
         outputs; non-trivial = the set has >= 2 kinds of which >= 1 numeric; distinct by sequence",
    );
    rep.exhaustive = true;
    rep.assumptions.push("singleton descriptions (one kind) are taken as the names of the individual kinds".into());
    let (o, empty) = match mk_oracle() {
        Ok(x) => x,
        Err(p) => {
            rep.fail("panic", json!({"what": format!("panicked on a singleton/empty list: {p}")}), json!({"seq": []}));
            return rep.finish();
        }
    };
    // singletons pairwise distinct, empty fallback distinct and non-empty
    let vals: BTreeSet<&String> = o.singles.values().collect();
    if vals.len() != 8 {
        rep.fail("singletons-not-distinct", json!({"singles": format!("{:?}", o.singles)}), json!({"seq": []}));
    }
    if empty.is_empty() || o.singles.values().any(|s| *s == empty) {
        rep.fail("bad-empty-fallback", json!({"empty": empty}), json!({"seq": []}));
    }
    let mut seq: Vec<Kind> = vec![];
    let numeric = |k: &Kind| matches!(k, Kind::Integer | Kind::NegativeInteger | Kind::Float);
    for len in 1..=5usize {
        let total = 8usize.pow(len as u32);
        for code in 0..total {
            seq.clear();
            let mut c = code;
            for _ in 0..len {
                seq.push(ALL_KINDS[c % 8]);
                c /= 8;
            }
            rep.stats.evaluations += 1;
            let set: BTreeSet<Kind> = seq.iter().copied().collect();
            if set.len() >= 2 && set.iter().any(numeric) {
                rep.stats.nontrivial(&seq);
                rep.stats.class(&format!("set size {}", set.len()));
            } else {
                rep.stats.class("trivial");
            }
            if code % 7919 == 0 && rep.stats.samples.len() < 10 {
                rep.stats.samples.push(json!({"seq": format!("{seq:?}"), "phrase": call(&seq).unwrap_or_default()}));
            }
            if let Err((sig, what)) = check_seq(&o, &seq, &empty) {
                rep.fail(&sig, json!({"what": what}), json!({"seq": seq.iter().map(|k| format!("{k:?}")).collect::<Vec<_>>()}));
            }
        }
    }
    // random longer sequences
    let n = tier.pick(20_000, 400_000);
    let mut rng = rng_for(rep.seed, "C17", 0, 0);
    for i in 0..n {
        let seq: Vec<Kind> = if i % 3 == 0 {
            // long lists in which a kind occurs for the first time late: a long run over one to three kinds,
            // then everything (lengths around typical buffer sizes and the numbers in deserr's sources)
            let mut sizes: Vec<usize> = vec![15, 16, 17, 18, 31, 32, 33, 34, 63, 64, 65, 66, 127, 128, 129, 255, 256, 257, 300];
            sizes.extend(dv_core::genp::dict().ints.iter().filter(|v| **v >= 6 && **v <= 300).flat_map(|v| [*v as usize, *v as usize + 1, *v as usize + 2]));
            let len = sizes[rng.random_range(0..sizes.len())];
            let nsub = rng.random_range(1..=3);
            let sub: Vec<Kind> = (0..nsub).map(|_| ALL_KINDS[rng.random_range(0..8)]).collect();
            let tail = rng.random_range(1..=4usize).min(len);
            (0..len).map(|k| if k + tail < len { sub[rng.random_range(0..sub.len())] } else { ALL_KINDS[rng.random_range(0..8)] }).collect()
        } else {
            let len = rng.random_range(6..=14);
            (0..len).map(|_| ALL_KINDS[rng.random_range(0..8)]).collect()
        };
        rep.stats.evaluations += 1;
        let set: BTreeSet<Kind> = seq.iter().copied().collect();
        if set.len() >= 2 && set.iter().any(numeric) {
            rep.stats.nontrivial(&seq);
        }
        rep.stats.class("random long");
        if i % (n / 3).max(1) == 0 {
            rep.stats.samples.push(json!({"seq": format!("{seq:?}"), "phrase": call(&seq).unwrap_or_default()}));
        }
        if let Err((sig, what)) = check_seq(&o, &seq, &empty) {
            // shrink: drop elements while it still fails with the same signature
            let mut cur = seq.clone();
            loop {
                let mut changed = false;
                for j in 0..cur.len() {
                    let mut c2 = cur.clone();
                    c2.remove(j);
                    if !c2.is_empty() {
                        if let Err((s2, _)) = check_seq(&o, &c2, &empty) {
                            if s2 == sig {
                                cur = c2;
                                changed = true;
                                break;
                            }
                        }
                    }
                }
                if !changed {
                    break;
                }
            }
            let what = check_seq(&o, &cur, &empty).err().map(|e| e.1).unwrap_or(what);
            rep.fail(&sig, json!({"what": what}), json!({"seq": cur.iter().map(|k| format!("{k:?}")).collect::<Vec<_>>()}));
        }
    }
    rep.finish()
}

fn parse_kind(s: &str) -> Option<Kind> {
    ALL_KINDS.iter().copied().find(|k| format!("{k:?}") == s)
}

pub fn replay(j: &serde_json::Value) -> i32 {
    let seq: Vec<Kind> = j["case"]["seq"]
        .as_array()
        .map(|a| a.iter().filter_map(|x| x.as_str().and_then(parse_kind)).collect())
        .unwrap_or_default();
    let (o, empty) = match mk_oracle() {
        Ok(x) => x,
        Err(p) => {
            println!("VIOLATION property=C17 replay=<given> (panic: {p})");
            return 1;
        }
    };
    match check_seq(&o, &seq, &empty) {
        Ok(()) => {
            println!("C17 replay: holds for {seq:?}");
            0
        }
        Err((sig, what)) => {
            println!("C17 replay: VIOLATED [{sig}] {what}");
            1
        }
    }
}
