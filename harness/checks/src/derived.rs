//! C06–C11: differential checks against the reference interpreter, each restricted to the
//! aspects its property states, on payloads shaped for that property.

use crate::common::*;
use dv_core::compare::{compare, Comparison};
use dv_core::entry::Src;
use dv_core::evidence::Tier;
use dv_core::genp::{camel, drop_last, flip_first, Gen, GenCfg};
use dv_core::pv::{path_str, Kind, Path, Step, PV};
use dv_core::runner::{Case, GenFn, Stats, Verdict};
use dv_core::sites::{sites, update_at, Site};
use dv_core::trace::{Event, RKind, Script};
use dv_core::ty::*;
use rand::Rng;
use serde_json::json;
use std::sync::Arc;

fn hist(c: &Comparison) -> serde_json::Value {
    json!(dv_core::trace::show_trace(&c.out.trace))
}

fn pick_type(reg: &Reg, eligible: &[usize], rng: &mut proptest::test_runner::TestRng) -> usize {
    let _ = reg;
    eligible[rng.random_range(0..eligible.len())]
}

fn derived_idx(reg: &Reg, pred: impl Fn(&Ty) -> bool) -> Vec<usize> {
    reg.modelled_idx().into_iter().filter(|i| reg.entries[*i].ty.has_derived() && pred(&reg.entries[*i].ty)).collect()
}

fn mentions(ty: &Ty, f: &dyn Fn(&Ty) -> bool, depth: usize) -> bool {
    if depth > 6 {
        return false;
    }
    if f(ty) {
        return true;
    }
    match ty {
        Ty::Vec(t) | Ty::Array(t, _) | Ty::HashSet(t) | Ty::BTreeSet(t) | Ty::Option(t) | Ty::Boxed(t) => mentions(t, f, depth + 1),
        Ty::Map { val, .. } => mentions(val, f, depth + 1),
        Ty::Tuple(ts) => ts.iter().any(|t| mentions(t, f, depth + 1)),
        Ty::Via(v) => mentions(&v.inner, f, depth + 1),
        Ty::Struct(st) => st.fields.iter().any(|fl| mentions(&fl.src, f, depth + 1)),
        Ty::TaggedEnum(en) => {
            en.variants.iter().any(|v| v.fields.as_ref().map(|fs| fs.iter().any(|fl| mentions(&fl.src, f, depth + 1))).unwrap_or(false))
        }
        _ => false,
    }
}

fn field_sites(ty: &Ty, pv: &PV) -> Vec<(Path, Vec<FieldTy>, Option<String>, Deny)> {
    sites(ty, pv)
        .into_iter()
        .filter_map(|s| match s {
            Site::Fields { path, fields, tag, deny } => Some((path, fields, tag, deny)),
            _ => None,
        })
        .collect()
}

fn std_stats(st: &mut Stats, reg: &Reg, case: &Case, c: &Comparison, nontrivial: bool) {
    st.executions += 1;
    if nontrivial {
        st.nontrivial(&(case.ty, &case.payload));
    }
    st.class(if c.pred.reports.is_empty() { "predicted: succeeds" } else { "predicted: fails" });
    for r in &c.pred.reports {
        st.class(&format!("predicted kind: {}", r.kind.class()));
    }
    st.class(&format!("origin: {}", reg.entries[case.ty].origin));
    if st.want_sample() {
        st.samples.push(sample_json(
            reg,
            case,
            json!({"predicted_value": c.pred_value.as_ref().map(|m| m.show()),
                   "predicted_reports": c.pred.reports.iter().map(|p| format!("{:?} at {}", p.kind, path_str(&p.loc))).collect::<Vec<_>>(),
                   "history": dv_core::trace::show_trace(&c.out.trace)}),
        ));
    }
}

/// a predicted report of one of `classes` was made but the returned error does not hold it
fn not_held(c: &Comparison, prop: &str, classes: &dyn Fn(&str) -> bool) -> Option<Verdict> {
    c.not_held.iter().find(|(k, _)| classes(k)).map(|(k, l)| {
        Verdict::Violation(
            format!("{prop}|report-made-but-not-in-the-returned-error|{k}"),
            json!({"what": format!("the {k} report at {} was handed to the error type but the returned error does not hold it", path_str(l)), "detail": c.final_reports.clone().err(), "history": hist(c)}),
        )
    })
}

fn alias_keys(f: &FieldTy) -> Vec<String> {
    vec![
        f.ident.clone(),
        camel(&f.ident),
        f.ident.to_lowercase(),
        f.ident.to_uppercase(),
        flip_first(&f.key),
        format!("{}x", f.key),
        drop_last(&f.key),
        f.key.to_uppercase(),
        f.key.to_lowercase(),
        format!(" {}", f.key),
        format!("{} ", f.key),
        format!("{}[]", f.key),
        format!("{}[0]", f.key),
        format!("{}.", f.key),
    ]
    .into_iter()
    // the key decorated with the short non-alphanumeric literals of deserr's own sources ("[]", ".", "$" ...):
    // a suffix- or prefix-stripping feature writes its literal into the source
    .chain(
        dv_core::genp::dict()
            .strs
            .iter()
            .filter(|d| !d.is_empty() && d.len() <= 3 && !d.chars().any(|c| c.is_alphanumeric()))
            .take(12)
            .flat_map(|d| [format!("{}{d}", f.key), format!("{d}{}", f.key)]),
    )
    .collect()
}

// =======================================================================================
// C07

pub fn gen_c07(reg: Arc<Reg>) -> GenFn {
    let eligible = derived_idx(&reg, |_| true);
    Arc::new(move |rng| {
        let ti = pick_type(&reg, &eligible, rng);
        let ty = reg.entries[ti].ty.clone();
        let mut g = Gen::new(rng, GenCfg { fault: 0.0, extras: false, ..GenCfg::default() });
        let mut pv = g.typed(&ty, 0);
        let ss = field_sites(&ty, &pv);
        let mut faults = 0;
        if !ss.is_empty() {
            let nsites = 1 + g.below(2.min(ss.len()));
            for _ in 0..nsites {
                let (path, fields, tag, _) = ss[g.below(ss.len())].clone();
                let effective: Vec<String> = fields.iter().filter(|f| !f.skip).map(|f| f.key.clone()).collect();
                let mut adds: Vec<(String, PV)> = vec![];
                let mut removes: Vec<String> = vec![];
                for f in &fields {
                    if !g.chance(0.6) {
                        continue;
                    }
                    let mut cands = alias_keys(f);
                    cands.retain(|k| !effective.contains(k) && tag.as_deref() != Some(k.as_str()));
                    cands.dedup();
                    if cands.is_empty() {
                        continue;
                    }
                    let n = 1 + g.below(2);
                    for _ in 0..n {
                        let k = g.pick(&cands).clone();
                        if adds.iter().any(|(kk, _)| *kk == k) {
                            continue;
                        }
                        let v = g.typed(&f.src, 2);
                        adds.push((k, v));
                        faults += 1;
                    }
                    if !f.skip && g.chance(0.35) {
                        removes.push(f.key.clone());
                    }
                }
                pv = update_at(&pv, &path, &mut |old| match old {
                    PV::Map(m) => {
                        let mut m2: Vec<(String, PV)> = m.iter().filter(|(k, _)| !removes.contains(k)).cloned().collect();
                        for (k, v) in &adds {
                            if !m2.iter().any(|(kk, _)| kk == k) {
                                m2.push((k.clone(), v.clone()));
                            }
                        }
                        PV::Map(m2)
                    }
                    o => o.clone(),
                });
            }
        }
        // shuffle member order of the root object a little
        if let PV::Map(m) = &mut pv {
            if m.len() > 1 && g.chance(0.5) {
                let i = g.below(m.len());
                let j = g.below(m.len());
                m.swap(i, j);
            }
        }
        Case { ty: ti, payload: pv, script: Script::all_continue(), aux: rng.random::<u64>(), faults }
    })
}

fn foreign_conv(class: &str) -> bool {
    class == "Foreign:try_from" || class == "Foreign:validate"
}

pub fn test_c07(reg: &Reg, case: &Case, stats: Option<&mut Stats>) -> Verdict {
    let e = &reg.entries[case.ty];
    // repeated keys are judged when every repetition carries the same value (then neither first-wins nor
    // last-wins nor the order matters); other duplicate-key payloads are left to C01/C02/C04/C12
    if case.payload.has_dup_keys() && !case.payload.dups_are_clones() {
        return Verdict::Ok;
    }
    let src = src_for(case);
    let c = compare(e, &case.payload, src);
    if c.out.panicked.is_some() {
        return Verdict::Ok;
    }
    if let Some(st) = stats {
        let has_rename = mentions(&e.ty, &|t| match t {
            Ty::Struct(s) => s.fields.iter().any(|f| f.key != f.ident || f.skip),
            Ty::TaggedEnum(en) => en.variants.iter().any(|v| v.key != v.ident || v.fields.as_ref().map(|fs| fs.iter().any(|f| f.key != f.ident)).unwrap_or(false)),
            _ => false,
        }, 0);
        std_stats(st, reg, case, &c, case.faults > 0 && has_rename);
        if case.faults > 0 {
            st.class("payload has non-effective alias keys");
        }
        if has_rename {
            st.class("type has rename / rename_all / skip");
        }
    }
    let rel_missing: Vec<_> = c.missing.iter().filter(|(k, _)| !foreign_conv(k)).collect();
    let rel_extra: Vec<_> = c.extra.iter().filter(|(k, _)| !foreign_conv(k)).collect();
    if let (Some(a), Ok(b)) = (&c.pred_value, &c.out.result) {
        if a != b {
            return Verdict::Violation("C07|field-filled-from-wrong-entry".into(), json!({"what": c.value.clone().err(), "history": hist(&c)}));
        }
    }
    if !rel_missing.is_empty() || !rel_extra.is_empty() {
        let cls = rel_missing.first().map(|x| format!("missing:{}", x.0)).or(rel_extra.first().map(|x| format!("extra:{}", x.0))).unwrap_or_default();
        return Verdict::Violation(format!("C07|reports-differ|{cls}"), json!({"what": c.reports.clone().err(), "history": hist(&c)}));
    }
    if let Err(w) = &c.visits {
        if w.starts_with("examined-but-must-not") {
            return Verdict::Violation("C07|value-under-non-effective-key-consumed".into(), json!({"what": w, "history": hist(&c)}));
        }
    }
    Verdict::Ok
}

// =======================================================================================
// C08

pub fn gen_c08(reg: Arc<Reg>) -> GenFn {
    let eligible = derived_idx(&reg, |_| true);
    Arc::new(move |rng| {
        let ti = pick_type(&reg, &eligible, rng);
        let ty = reg.entries[ti].ty.clone();
        let mut g = Gen::new(rng, GenCfg { fault: 0.0, extras: false, ..GenCfg::default() });
        let mut pv = g.typed(&ty, 0);
        // make every field present first (the generator leaves defaulted fields out at times)
        let ss = field_sites(&ty, &pv);
        let mut faults = 0;
        for (path, fields, _tag, _) in ss.iter().rev() {
            // a tag that is present but null / not a string is not an absent tag
            if let Some(tag) = _tag {
                if g.chance(0.06) {
                    let tag = tag.clone();
                    let nv = g.pick(&[PV::Null, PV::Null, PV::Int(0), PV::Bool(false), PV::Seq(vec![])]).clone();
                    pv = update_at(&pv, path, &mut |old| match old {
                        PV::Map(m) => PV::Map(m.iter().map(|(k, v)| if *k == tag { (k.clone(), nv.clone()) } else { (k.clone(), v.clone()) }).collect()),
                        o => o.clone(),
                    });
                    faults += 1;
                    continue;
                }
            }
            if !g.chance(0.8) {
                continue;
            }
            let mut present: Vec<(String, PV)> = vec![];
            for f in fields.iter() {
                if f.skip {
                    if g.chance(0.3) {
                        present.push((f.ident.clone(), g.typed(&f.src, 2)));
                        faults += 1;
                    }
                    continue;
                }
                match g.below(10) {
                    0..=2 => {
                        faults += 1; // delete
                    }
                    3 => {
                        present.push((f.key.clone(), PV::Null));
                        faults += 1;
                    }
                    4 => {
                        present.push((f.key.clone(), g.blind(3)));
                        faults += 1;
                    }
                    _ => present.push((f.key.clone(), PV::Bool(true))), // marker: keep the existing value or make one
                }
            }
            let fields2 = fields.clone();
            let mut fresh: Vec<(String, PV)> = vec![];
            for (k, v) in &present {
                if *v == PV::Bool(true) {
                    if let Some(f) = fields2.iter().find(|f| f.key == *k && !f.skip) {
                        fresh.push((k.clone(), g.typed(&f.src, 2)));
                    }
                }
            }
            pv = update_at(&pv, path, &mut |old| match old {
                PV::Map(m) => {
                    let mut m2: Vec<(String, PV)> = vec![];
                    // keep the tag entry and anything that is not a field key
                    for (k, v) in m {
                        if !fields2.iter().any(|f| !f.skip && f.key == *k) {
                            m2.push((k.clone(), v.clone()));
                        }
                    }
                    for (k, v) in &present {
                        if *v == PV::Bool(true) && fields2.iter().any(|f| f.key == *k && !f.skip) {
                            let old_v = m.iter().find(|(kk, _)| kk == k).map(|x| x.1.clone());
                            let nv = old_v.or_else(|| fresh.iter().find(|(kk, _)| kk == k).map(|x| x.1.clone())).unwrap_or(PV::Null);
                            m2.push((k.clone(), nv));
                        } else if !m2.iter().any(|(kk, _)| kk == k) {
                            m2.push((k.clone(), v.clone()));
                        }
                    }
                    PV::Map(m2)
                }
                o => o.clone(),
            });
        }
        Case { ty: ti, payload: pv, script: Script::all_continue(), aux: rng.random::<u64>(), faults }
    })
}

pub fn test_c08(reg: &Reg, case: &Case, stats: Option<&mut Stats>) -> Verdict {
    let e = &reg.entries[case.ty];
    // repeated keys are judged when every repetition carries the same value (then neither first-wins nor
    // last-wins nor the order matters); other duplicate-key payloads are left to C01/C02/C04/C12
    if case.payload.has_dup_keys() && !case.payload.dups_are_clones() {
        return Verdict::Ok;
    }
    let src = src_for(case);
    let c = compare(e, &case.payload, src);
    if c.out.panicked.is_some() {
        return Verdict::Ok;
    }
    let is_missing = |k: &str| k == "MissingField" || k == "Foreign:Missing";
    if let Some(st) = stats {
        let n_missing = c.pred.reports.iter().filter(|r| is_missing(r.kind.class()) || matches!(&r.kind, dv_core::interp::PKind::Foreign(dv_core::trace::ProbeData::Missing { .. }))).count();
        std_stats(st, reg, case, &c, n_missing >= 1 || (c.pred_value.is_some() && case.faults > 0));
        st.class(match n_missing {
            0 => "0 fields predicted missing",
            1 => "1 field predicted missing",
            _ => ">=2 fields predicted missing",
        });
        if c.pred_value.is_some() && case.faults > 0 {
            st.class("succeeds with absent defaulted / present skipped keys");
        }
    }
    let rm: Vec<_> = c.missing.iter().filter(|(k, _)| is_missing(k)).collect();
    let rx: Vec<_> = c.extra.iter().filter(|(k, _)| is_missing(k)).collect();
    if let Some((k, l)) = rm.first() {
        return Verdict::Violation(
            format!("C08|missing-report-absent-or-wrong|{k}"),
            json!({"what": format!("a field that is not skipped, has no default and whose key is absent at {} was not reported missing as predicted", path_str(l)), "detail": c.reports.clone().err(), "history": hist(&c)}),
        );
    }
    if let Some((k, l)) = rx.first() {
        return Verdict::Violation(
            format!("C08|spurious-missing-report|{k}"),
            json!({"what": format!("unexpected missing-field report at {}", path_str(l)), "detail": c.reports.clone().err(), "history": hist(&c)}),
        );
    }
    if let Some(v) = not_held(&c, "C08", &is_missing) {
        return v;
    }
    if let (Some(a), Ok(b)) = (&c.pred_value, &c.out.result) {
        if a != b {
            return Verdict::Violation("C08|default-or-skip-value-wrong".into(), json!({"what": c.value.clone().err(), "history": hist(&c)}));
        }
    }
    if let Err(w) = &c.visits {
        if w.starts_with("examined-but-must-not") {
            return Verdict::Violation("C08|skipped-field-read-the-payload".into(), json!({"what": w, "history": hist(&c)}));
        }
    }
    Verdict::Ok
}

// =======================================================================================
// C09

pub fn gen_c09(reg: Arc<Reg>) -> GenFn {
    let eligible = derived_idx(&reg, |_| true);
    Arc::new(move |rng| {
        let ti = pick_type(&reg, &eligible, rng);
        let ty = reg.entries[ti].ty.clone();
        let f = [0.0, 0.0, 0.05, 0.15][rng.random_range(0..4)];
        let mut g = Gen::new(rng, GenCfg { fault: f, extras: false, ..GenCfg::default() });
        let mut pv = g.typed(&ty, 0);
        let ss = field_sites(&ty, &pv);
        let mut faults = 0;
        if !ss.is_empty() {
            let nsites = 1 + g.below(3.min(ss.len()));
            for _ in 0..nsites {
                let (path, fields, tag, _) = ss[g.below(ss.len())].clone();
                let n = g.below(6);
                let mut adds: Vec<(String, PV)> = vec![];
                for _ in 0..n {
                    let k = match g.below(7) {
                        0 | 1 if !fields.is_empty() => {
                            let f = g.pick(&fields).clone();
                            g.pick(&alias_keys(&f)).clone()
                        }
                        2 | 3 if fields.iter().any(|f| f.skip) => {
                            let sk: Vec<&FieldTy> = fields.iter().filter(|f| f.skip).collect();
                            let f = (*g.pick(&sk)).clone();
                            if g.chance(0.5) { f.ident.clone() } else { camel(&f.ident) }
                        }
                        4 if tag.is_some() => format!("{}s", tag.clone().unwrap()),
                        _ => g.string(),
                    };
                    if fields.iter().any(|f| !f.skip && f.key == k) || tag.as_deref() == Some(k.as_str()) || adds.iter().any(|(kk, _)| *kk == k) {
                        continue;
                    }
                    let v = g.blind(2);
                    adds.push((k, v));
                }
                faults += adds.len();
                pv = update_at(&pv, &path, &mut |old| match old {
                    PV::Map(m) => {
                        let mut m2 = m.clone();
                        for (k, v) in &adds {
                            if !m2.iter().any(|(kk, _)| kk == k) {
                                let at = if m2.is_empty() { 0 } else { (k.len() * 7 + m2.len()) % (m2.len() + 1) };
                                m2.insert(at, (k.clone(), v.clone()));
                            }
                        }
                        PV::Map(m2)
                    }
                    o => o.clone(),
                });
            }
        }
        Case { ty: ti, payload: pv, script: Script::all_continue(), aux: rng.random::<u64>(), faults }
    })
}

/// remove every entry that is neither a field key nor the tag, at every struct-like site
fn strip_unknown(ty: &Ty, pv: &PV) -> PV {
    let mut out = pv.clone();
    // deepest first so that paths stay valid
    let mut ss = field_sites(ty, pv);
    ss.sort_by_key(|s| std::cmp::Reverse(s.0.len()));
    for (path, fields, tag, deny) in ss {
        // only where nothing denies unknown fields
        if !matches!(deny, Deny::No) {
            continue;
        }
        out = update_at(&out, &path, &mut |old| match old {
            PV::Map(m) => {
                let mut tag_kept = false;
                PV::Map(
                    m.iter()
                        .filter(|(k, _)| {
                            if tag.as_deref() == Some(k.as_str()) && !tag_kept {
                                tag_kept = true;
                                return true;
                            }
                            fields.iter().any(|f| !f.skip && f.key == *k)
                        })
                        .cloned()
                        .collect(),
                )
            }
            o => o.clone(),
        });
    }
    out
}

fn report_summary(out: &dv_core::entry::Outcome) -> Vec<(String, String)> {
    let mut v: Vec<(String, String)> = out
        .trace
        .iter()
        .filter_map(|ev| if let Event::Report { kind, loc, .. } = ev { Some((path_str(loc), dv_core::trace::show_kind(kind))) } else { None })
        .collect();
    v.sort();
    v
}

pub fn test_c09(reg: &Reg, case: &Case, stats: Option<&mut Stats>) -> Verdict {
    let e = &reg.entries[case.ty];
    // repeated keys are judged when every repetition carries the same value (then neither first-wins nor
    // last-wins nor the order matters); other duplicate-key payloads are left to C01/C02/C04/C12
    if case.payload.has_dup_keys() && !case.payload.dups_are_clones() {
        return Verdict::Ok;
    }
    let src = src_for(case);
    let c = compare(e, &case.payload, src);
    if c.out.panicked.is_some() {
        return Verdict::Ok;
    }
    let ss = field_sites(&e.ty, &c.seen);
    let any_deny = ss.iter().any(|s| !matches!(s.3, Deny::No));
    let extras_present = ss.iter().any(|(p, fields, tag, _)| {
        c.seen.resolve_all(p).first().map(|v| match v {
            PV::Map(m) => m.iter().any(|(k, _)| !fields.iter().any(|f| !f.skip && f.key == *k) && tag.as_deref() != Some(k.as_str())),
            _ => false,
        }).unwrap_or(false)
    });
    let is_unknown = |k: &str| k == "UnknownKey" || k == "Foreign:Unknown";
    if let Some(st) = stats {
        std_stats(st, reg, case, &c, extras_present);
        st.class(if extras_present { "has extra keys" } else { "no extra keys" });
        st.class(if any_deny { "a site denies unknown fields" } else { "no site denies unknown fields" });
    }
    if let Some((k, l)) = c.missing.iter().find(|(k, _)| is_unknown(k)) {
        return Verdict::Violation(
            format!("C09|unknown-key-report-absent-or-wrong|{k}"),
            json!({"what": format!("an unknown key at {} was not reported exactly as predicted (key, accepted list in declaration order, location)", path_str(l)), "detail": c.reports.clone().err(), "history": hist(&c)}),
        );
    }
    if let Some((k, l)) = c.extra.iter().find(|(k, _)| is_unknown(k)) {
        return Verdict::Violation(
            format!("C09|spurious-unknown-key-report|{k}"),
            json!({"what": format!("unexpected unknown-key report at {}", path_str(l)), "detail": c.reports.clone().err(), "history": hist(&c)}),
        );
    }
    if let Some(v) = not_held(&c, "C09", &is_unknown) {
        return v;
    }
    if let Err(w) = &c.visits {
        if w.starts_with("examined-but-must-not") {
            return Verdict::Violation("C09|unknown-key-value-consumed".into(), json!({"what": w, "history": hist(&c)}));
        }
    }
    // metamorphic: at every site that does not deny unknown fields, extras have no influence whatsoever
    let _ = any_deny;
    if extras_present {
        let base = strip_unknown(&e.ty, &c.seen);
        if base != c.seen {
            let out_b = (e.rec)(&base, src, &Script::all_continue());
            let a = (c.out.result.clone().ok(), report_summary(&c.out));
            let b = (out_b.result.clone().ok(), report_summary(&out_b));
            if a != b {
                return Verdict::Violation(
                    "C09|unknown-keys-influence-outcome".into(),
                    json!({"what": "removing the unknown keys changed the value or the reports although nothing denies unknown fields",
                           "with_extras": c.seen.show(), "without_the_extras_at_non_denying_sites": base.show(), "outcome_with": format!("{a:?}"), "outcome_without": format!("{b:?}")}),
                );
            }
        }
    }
    Verdict::Ok
}

// =======================================================================================
// C10

pub fn gen_c10(reg: Arc<Reg>) -> GenFn {
    let eligible = derived_idx(&reg, |t| mentions(t, &|x| matches!(x, Ty::TaggedEnum(_) | Ty::UnitEnum(_)), 0));
    Arc::new(move |rng| {
        let ti = pick_type(&reg, &eligible, rng);
        let ty = reg.entries[ti].ty.clone();
        let f = [0.0, 0.0, 0.1][rng.random_range(0..3)];
        let mut g = Gen::new(rng, GenCfg { fault: f, ..GenCfg::default() });
        let mut pv = g.typed(&ty, 0);
        let ss: Vec<Site> = sites(&ty, &pv).into_iter().filter(|s| matches!(s, Site::Tagged { .. } | Site::UnitEnum { .. })).collect();
        let mut faults = 0;
        if !ss.is_empty() && g.chance(0.85) {
            let s = ss[g.below(ss.len())].clone();
            match s {
                Site::Tagged { path, en } => {
                    let var = g.pick(&en.variants).clone();
                    let choice = g.below(9);
                    let newtag: Option<PV> = match choice {
                        0 => None,
                        1 => Some(g.other_kind(&[Kind::String])),
                        2 => Some(PV::Str(var.key.clone())),
                        3 => Some(PV::Str(var.ident.clone())),
                        4 => Some(PV::Str(var.key.to_lowercase())),
                        5 => Some(PV::Str(var.key.to_uppercase())),
                        6 => Some(PV::Str(g.near_miss(&var.key, &var.ident))),
                        7 => Some(PV::Str(camel(&var.ident))),
                        _ => Some(PV::Str(g.string())),
                    };
                    faults += 1;
                    let tagk = en.tag.clone();
                    pv = update_at(&pv, &path, &mut |old| match old {
                        PV::Map(m) => {
                            let mut m2: Vec<(String, PV)> = m.iter().filter(|(k, _)| *k != tagk).cloned().collect();
                            if let Some(t) = &newtag {
                                let at = if m2.is_empty() { 0 } else { tagk.len() % (m2.len() + 1) };
                                m2.insert(at, (tagk.clone(), t.clone()));
                            }
                            PV::Map(m2)
                        }
                        o => o.clone(),
                    });
                }
                Site::UnitEnum { path, en } => {
                    let (ident, key) = g.pick(&en.variants).clone();
                    let nv = match g.below(8) {
                        0 => PV::Str(key.clone()),
                        1 => PV::Str(ident.clone()),
                        2 => PV::Str(key.to_lowercase()),
                        3 => PV::Str(key.to_uppercase()),
                        4 => PV::Str(g.near_miss(&key, &ident)),
                        5 => PV::Str(camel(&ident)),
                        6 => g.other_kind(&[Kind::String]),
                        _ => PV::Str(g.string()),
                    };
                    faults += 1;
                    pv = update_at(&pv, &path, &mut |_| nv.clone());
                }
                _ => {}
            }
        }
        Case { ty: ti, payload: pv, script: Script::all_continue(), aux: rng.random::<u64>(), faults }
    })
}

pub fn test_c10(reg: &Reg, case: &Case, stats: Option<&mut Stats>) -> Verdict {
    let e = &reg.entries[case.ty];
    // repeated keys are judged when every repetition carries the same value (then neither first-wins nor
    // last-wins nor the order matters); other duplicate-key payloads are left to C01/C02/C04/C12
    if case.payload.has_dup_keys() && !case.payload.dups_are_clones() {
        return Verdict::Ok;
    }
    let src = src_for(case);
    let c = compare(e, &case.payload, src);
    if c.out.panicked.is_some() {
        return Verdict::Ok;
    }
    // locations that belong to enum dispatch: the enum's own location and its tag
    let mut enum_locs: Vec<Path> = vec![];
    let mut shared_field_names = false;
    for s in sites(&e.ty, &c.seen) {
        match s {
            Site::Tagged { path, en } => {
                let mut t = path.clone();
                t.push(Step::Key(en.tag.clone()));
                enum_locs.push(path);
                enum_locs.push(t);
                let mut names: Vec<&String> = en.variants.iter().flat_map(|v| v.fields.iter().flatten().map(|f| &f.key)).collect();
                let n = names.len();
                names.sort();
                names.dedup();
                if names.len() != n {
                    shared_field_names = true;
                }
            }
            Site::UnitEnum { path, .. } => enum_locs.push(path),
            _ => {}
        }
    }
    let dispatch_class = |k: &str| matches!(k, "MissingField" | "IncorrectValueKind" | "Unexpected" | "UnknownValue");
    let rel = |x: &&(String, Path)| dispatch_class(&x.0) && enum_locs.contains(&x.1);
    if let Some(st) = stats {
        let dispatch_fault = c.pred.reports.iter().any(|r| r.structural || matches!(r.kind, dv_core::interp::PKind::UnknownValue { .. }));
        std_stats(st, reg, case, &c, dispatch_fault || shared_field_names || case.faults > 0);
        if dispatch_fault {
            st.class("tag absent / non-string / names no variant");
        }
        if shared_field_names {
            st.class("variants share a field name");
        }
    }
    if let Some((k, l)) = c.missing.iter().find(rel) {
        return Verdict::Violation(
            format!("C10|dispatch-report-absent-or-wrong|{k}"),
            json!({"what": format!("the enum at {} did not report as predicted", path_str(l)), "detail": c.reports.clone().err(), "history": hist(&c)}),
        );
    }
    if let Some((k, l)) = c.extra.iter().find(rel) {
        return Verdict::Violation(
            format!("C10|spurious-dispatch-report|{k}"),
            json!({"what": format!("unexpected report at the enum position {}", path_str(l)), "detail": c.reports.clone().err(), "history": hist(&c)}),
        );
    }
    if let Some((k, l)) = c.not_held.iter().find(rel) {
        return Verdict::Violation(
            format!("C10|report-made-but-not-in-the-returned-error|{k}"),
            json!({"what": format!("the dispatch report at {} was handed to the error type but the returned error does not hold it", path_str(l)), "detail": c.final_reports.clone().err(), "history": hist(&c)}),
        );
    }
    if let (Some(a), Ok(b)) = (&c.pred_value, &c.out.result) {
        if a != b {
            return Verdict::Violation("C10|wrong-variant-or-fields".into(), json!({"what": c.value.clone().err(), "history": hist(&c)}));
        }
    }
    Verdict::Ok
}

// =======================================================================================
// C11

fn has_probes(ty: &Ty) -> bool {
    mentions(
        ty,
        &|t| match t {
            Ty::Struct(s) => s.validate.is_some() || s.fields.iter().any(|f| f.conv != Conv::None || f.map.is_some() || f.err_tag != 0),
            Ty::TaggedEnum(en) => {
                en.validate.is_some()
                    || en.variants.iter().any(|v| v.fields.as_ref().map(|fs| fs.iter().any(|f| f.conv != Conv::None || f.map.is_some())).unwrap_or(false))
            }
            Ty::UnitEnum(en) => en.validate.is_some(),
            Ty::Via(_) => true,
            _ => false,
        },
        0,
    )
}

pub fn gen_c11(reg: Arc<Reg>) -> GenFn {
    let eligible = derived_idx(&reg, has_probes);
    case_gen(reg, eligible, GenOpts { blind: 0.0, ..GenOpts::default() })
}

pub fn test_c11(reg: &Reg, case: &Case, stats: Option<&mut Stats>) -> Verdict {
    let e = &reg.entries[case.ty];
    if (case.payload.has_dup_keys() && !case.payload.dups_are_clones()) || case.payload.has_nonfinite() {
        return Verdict::Ok;
    }
    let src = src_for(case);
    let c = compare(e, &case.payload, src);
    if c.out.panicked.is_some() {
        return Verdict::Ok;
    }
    if let Some(st) = stats {
        let failing = c.pred.calls.iter().filter(|x| !x.ok).count();
        std_stats(st, reg, case, &c, failing >= 1 || c.pred.calls.len() >= 2);
        st.class(match c.pred.calls.len() {
            0 => "0 predicted probe calls",
            1 => "1 predicted probe call",
            _ => ">=2 predicted probe calls",
        });
        if failing > 0 {
            st.class("a conversion/validation stage fails");
        }
        for call in &c.pred.calls {
            st.class(&format!("call role: {}", call.role));
        }
    }
    if let Err(w) = &c.calls {
        let role = c.pred.calls.iter().map(|x| x.role).chain(std::iter::once("none")).next().unwrap_or("none");
        let _ = role;
        let kind = if w.contains("unexpected call") { "unexpected-call" } else { "missing-call" };
        let which = ["validate", "map", "try_from", "from"].iter().find(|r| w.contains(&format!("call {r}#"))).copied().unwrap_or("?");
        return Verdict::Violation(format!("C11|calls-differ|{kind}|{which}"), json!({"what": w, "history": hist(&c)}));
    }
    let conv = |k: &str| k == "Foreign:try_from" || k == "Foreign:validate";
    if let Some((k, l)) = c.missing.iter().find(|(k, _)| conv(k)) {
        return Verdict::Violation(
            format!("C11|failure-not-handed-to-error-type|{k}"),
            json!({"what": format!("a failing conversion/validation at {} was not reported there exactly once", path_str(l)), "detail": c.reports.clone().err(), "history": hist(&c)}),
        );
    }
    if let Some((k, l)) = c.extra.iter().find(|(k, _)| conv(k)) {
        return Verdict::Violation(
            format!("C11|spurious-conversion-failure|{k}"),
            json!({"what": format!("unexpected conversion/validation failure report at {}", path_str(l)), "detail": c.reports.clone().err(), "history": hist(&c)}),
        );
    }
    if let Some(v) = not_held(&c, "C11", &conv) {
        return v;
    }
    if let (Some(a), Ok(b)) = (&c.pred_value, &c.out.result) {
        if a != b {
            return Verdict::Violation("C11|result-is-not-what-the-functions-returned".into(), json!({"what": c.value.clone().err(), "history": hist(&c)}));
        }
    }
    let only_conv = !c.pred.reports.is_empty() && c.pred.reports.iter().all(|r| matches!(&r.kind, dv_core::interp::PKind::Foreign(dv_core::trace::ProbeData::Failed { .. })));
    if only_conv && c.out.result.is_ok() {
        return Verdict::Violation("C11|failed-conversion-accepted".into(), json!({"what": c.value.clone().err(), "history": hist(&c)}));
    }
    // errors of a field-level error type are handed over to the container's exactly once
    for ev in &c.out.trace {
        if let Event::Report { id, tag, .. } = ev {
            if *tag != 0 {
                let n = c
                    .out
                    .trace
                    .iter()
                    .filter(|h| matches!(h, Event::HandOver { from, to, other_ids, .. } if *from == *tag && *to == 0 && other_ids.contains(id)))
                    .count();
                if n != 1 {
                    return Verdict::Violation(
                        "C11|field-level-error-not-handed-over-exactly-once".into(),
                        json!({"what": format!("report #{id} of the field-level error type was handed to the container's error type {n} times"), "history": hist(&c)}),
                    );
                }
            }
        }
    }
    // a validate function whose error type is the container's own error type: the error it built must still be
    // handed to the error type at the container's location (the location validate was called with)
    for (i, ev) in c.out.trace.iter().enumerate() {
        if let Event::UserFn { id, role: "validate", ok: false, loc: Some(at), .. } = ev {
            if !dv_core::probe::is_own_error_validate(*id) {
                continue;
            }
            let made = c.out.trace[i + 1..].iter().find_map(|e| match e {
                Event::Report { id: rid, kind: RKind::Unexpected { msg }, .. } if msg.starts_with(&format!("validate#{id} ")) => Some(*rid),
                _ => None,
            });
            let Some(rid) = made else { continue };
            let handed = c.out.trace[i + 1..].iter().any(|e| matches!(e, Event::HandOver { other_ids, loc, .. } if other_ids.contains(&rid) && loc == at));
            if !handed {
                return Verdict::Violation(
                    "C11|validate-failure-not-handed-to-the-error-type".into(),
                    json!({"what": format!("validate#{id} failed at {} with an error of the container's own error type, but that error was never handed to the error type there", path_str(at)), "history": hist(&c)}),
                );
            }
        }
    }
    // a failure of a field-level try_from is handed on at the FIELD's location: when the field has its own error
    // type, the conversion error is reported to that type at the field and the result is handed to the
    // container's error type at the same place - whatever the field's error type answered
    let has_field_level = c.out.trace.iter().any(|ev| matches!(ev, Event::Report { tag, .. } if *tag != 0));
    let mut traces: Vec<(String, Vec<Event>)> = vec![("C*".into(), c.out.trace.clone())];
    if has_field_level {
        for sc in [Script::all_break(), Script::break_at(1)] {
            let o = (e.rec)(&case.payload, src, &sc);
            if o.panicked.is_none() {
                traces.push((sc.show(), o.trace));
            }
        }
    }
    for (script, tr) in &traces {
        for ev in tr {
            if let Event::HandOver { from, to, other_built_by, loc, .. } = ev {
                if from != to {
                    if let Some(Event::Report { tag, kind: dv_core::trace::RKind::Foreign(dv_core::trace::ProbeData::Failed { .. }), loc: at, .. }) = tr.get(*other_built_by) {
                        if tag == from && at != loc {
                            return Verdict::Violation(
                                "C11|field-level-failure-handed-over-at-another-location".into(),
                                json!({"what": format!("the conversion failure reported at {} was handed to the container's error type at {}", path_str(at), path_str(loc)),
                                       "script": script, "history": dv_core::trace::show_trace(tr)}),
                            );
                        }
                    }
                }
            }
        }
    }
    Verdict::Ok
}

// =======================================================================================
// C06

fn container_idx(reg: &Reg) -> Vec<usize> {
    reg.modelled_idx()
        .into_iter()
        .filter(|i| {
            matches!(
                reg.entries[*i].ty,
                Ty::Vec(_) | Ty::Array(..) | Ty::Tuple(_) | Ty::HashSet(_) | Ty::BTreeSet(_) | Ty::Map { .. } | Ty::Option(_) | Ty::Boxed(_) | Ty::Cs(_)
            )
        })
        .collect()
}

pub fn gen_c06(reg: Arc<Reg>) -> GenFn {
    let eligible = container_idx(&reg);
    case_gen(reg, eligible, GenOpts { blind: 0.02, alt_key_spellings: true, nonfinite: true, ..GenOpts::default() })
}

fn parse_collision(ty: &Ty, pv: &PV, depth: usize) -> bool {
    if depth > 30 {
        return false;
    }
    match (ty, pv) {
        (Ty::Lazy(f), _) => parse_collision(&f(), pv, depth + 1),
        (Ty::Option(t), _) | (Ty::Boxed(t), _) => parse_collision(t, pv, depth + 1),
        (Ty::Via(v), _) => parse_collision(&v.inner, pv, depth + 1),
        (Ty::Map { key, val, .. }, PV::Map(m)) => {
            let mut parsed: Vec<_> = m.iter().filter_map(|(k, _)| key.parse(k)).collect();
            let n = parsed.len();
            parsed.sort();
            parsed.dedup();
            parsed.len() != n || m.iter().any(|(_, v)| parse_collision(val, v, depth + 1))
        }
        (Ty::Vec(t), PV::Seq(s)) | (Ty::HashSet(t), PV::Seq(s)) | (Ty::BTreeSet(t), PV::Seq(s)) | (Ty::Array(t, _), PV::Seq(s)) => {
            s.iter().any(|v| parse_collision(t, v, depth + 1))
        }
        (Ty::Tuple(ts), PV::Seq(s)) => ts.iter().zip(s.iter()).any(|(t, v)| parse_collision(t, v, depth + 1)),
        (Ty::Struct(st), PV::Map(m)) => {
            m.iter().any(|(k, v)| st.fields.iter().find(|f| !f.skip && f.key == *k).map(|f| parse_collision(&f.src, v, depth + 1)).unwrap_or(false))
        }
        _ => false,
    }
}

pub fn test_c06(reg: &Reg, case: &Case, stats: Option<&mut Stats>) -> Verdict {
    let e = &reg.entries[case.ty];
    // repeated keys are judged when every repetition carries the same value (then neither first-wins nor
    // last-wins nor the order matters); other duplicate-key payloads are left to C01/C02/C04/C12
    if case.payload.has_dup_keys() && !case.payload.dups_are_clones() {
        return Verdict::Ok;
    }
    let src = src_for(case);
    let c = compare(e, &case.payload, src);
    if c.out.panicked.is_some() {
        return Verdict::Ok;
    }
    let collision = parse_collision(&e.ty, &c.seen, 0);
    let structural = |k: &dv_core::interp::PKind| match k {
        dv_core::interp::PKind::BadSequenceLen { .. } => true,
        dv_core::interp::PKind::Unexpected { why, .. } => *why == "unparsable map key",
        _ => false,
    };
    if let Some(st) = stats {
        let len = match &c.seen {
            PV::Seq(s) => s.len(),
            PV::Map(m) => m.len(),
            _ => 0,
        };
        let nt = len >= 2 || c.pred.reports.iter().any(|r| structural(&r.kind)) || collision || matches!(c.seen, PV::Null);
        std_stats(st, reg, case, &c, nt);
        if collision {
            st.class("keys collide after parsing");
        }
        if c.pred.reports.iter().any(|r| matches!(r.kind, dv_core::interp::PKind::BadSequenceLen { .. })) {
            st.class("arity mismatch");
        }
        if c.pred.reports.iter().any(|r| matches!(&r.kind, dv_core::interp::PKind::Unexpected { why, .. } if *why == "unparsable map key")) {
            st.class("unparsable map key");
        }
        st.class(match len {
            0 => "length 0",
            1 => "length 1",
            _ => "length >= 2",
        });
    }
    // arity / key-parse reports: exactly as predicted
    for (i, p) in c.pred.reports.iter().enumerate() {
        let _ = i;
        if structural(&p.kind) && c.missing.iter().any(|(k, l)| (k == "BadSequenceLen" || k == "Unexpected") && *l == p.loc) {
            let which = if matches!(p.kind, dv_core::interp::PKind::BadSequenceLen { .. }) { "arity-report" } else { "key-parse-report" };
            return Verdict::Violation(
                format!("C06|{which}-absent-or-wrong|{}", dv_core::oracles::ctor_at(&e.ty, &p.loc, &c.seen)),
                json!({"what": format!("expected {:?} at {}", p.kind, path_str(&p.loc)), "detail": c.reports.clone().err(), "history": hist(&c)}),
            );
        }
    }
    for p in c.pred.reports.iter().filter(|p| structural(&p.kind)) {
        if c.not_held.iter().any(|(k, l)| (k == "BadSequenceLen" || k == "Unexpected") && *l == p.loc) {
            let which = if matches!(p.kind, dv_core::interp::PKind::BadSequenceLen { .. }) { "arity-report" } else { "key-parse-report" };
            return Verdict::Violation(
                format!("C06|{which}-made-but-not-in-the-returned-error|{}", dv_core::oracles::ctor_at(&e.ty, &p.loc, &c.seen)),
                json!({"what": format!("{:?} at {} was handed to the error type but the returned error does not hold it", p.kind, path_str(&p.loc)), "detail": c.final_reports.clone().err(), "history": hist(&c)}),
            );
        }
    }
    if let Some((_, l)) = c.extra.iter().find(|(k, _)| k == "BadSequenceLen") {
        return Verdict::Violation(
            format!("C06|spurious-arity-report|{}", dv_core::oracles::ctor_at(&e.ty, l, &c.seen)),
            json!({"what": format!("unexpected BadSequenceLen at {}", path_str(l)), "detail": c.reports.clone().err(), "history": hist(&c)}),
        );
    }
    match (&c.pred_value, &c.out.result) {
        (Some(a), Ok(b)) => {
            if a != b && !collision {
                return Verdict::Violation(format!("C06|structure-not-kept|{}", e.ty.ctor()), json!({"what": c.value.clone().err(), "history": hist(&c)}));
            }
        }
        (Some(_), Err(_)) => {
            return Verdict::Violation(format!("C06|rejected-well-formed-structure|{}", e.ty.ctor()), json!({"what": c.value.clone().err(), "history": hist(&c)}));
        }
        (None, Ok(_)) => {
            // "requires exactly their arity" / "a map key that cannot be parsed ... makes the call fail"
            if c.pred.reports.iter().any(|r| structural(&r.kind)) {
                return Verdict::Violation(
                    format!("C06|accepted-wrong-arity-or-unparsable-key|{}", e.ty.ctor()),
                    json!({"what": c.value.clone().err(), "history": hist(&c)}),
                );
            }
        }
        _ => {}
    }
    let _ = RKind::MissingField { field: String::new() };
    let _ = Src::Ov;
    Verdict::Ok
}

// =======================================================================================

pub fn run(prop: &'static str, tier: Tier) -> i32 {
    let reg = registry();
    let (gen, test, rule, cases): (GenFn, TestFn, &str, (u32, u32)) = match prop {
        "C06" => (
            with_repeated_member(gen_c06(reg.clone())),
            test_c06 as TestFn,
            "cases = (std container shape x element type from the catalogue cross product incl. nested containers and derived structs, lengths 0..6 incl. arity+-1, equal elements, colliding and unparsable map keys (\"+5\", \"05\", \"256\", \"x\"), nulls under Option nesting, CS strings with empty segments, faults at every position), both sources; \
             oracle: reference interpreter - element i from payload element i in order, set/map semantics by the parsed key (std FromStr), None iff null, BadSequenceLen{whole sequence, arity}, unparsable key reported at the map naming the key and the call fails; colliding keys: only success/failure compared; \
             non-trivial = length >= 2, arity mismatch, unparsable or colliding key, or null; distinct by (type, payload)",
            (1_600_000, 30_000_000),
        ),
        "C07" => (
            with_repeated_member(gen_c07(reg.clone())),
            test_c07 as TestFn,
            "cases = (derived struct / struct-like variant from the hand-written and randomly generated derive inputs, a well-typed payload in which, per field, entries under non-effective aliases (identifier, camelCase, lowercase, UPPERCASE, case-flipped, one-edit near-misses, names of skipped fields) are added with well-typed distinct values and the effective key is sometimes removed); \
             oracle: value (via ToModel) == interpreter's projection through the harness' own effective-key rule, report multiset equal, values under non-effective keys never consumed (OV); \
             non-trivial = payload holds >= 1 non-effective alias and the type uses rename / rename_all / skip; distinct by (type, payload)",
            (1_200_000, 20_000_000),
        ),
        "C08" => (
            with_repeated_member(gen_c08(reg.clone())),
            test_c08 as TestFn,
            "cases = (derived types mixing default / default = expr / skip / missing_field_error / map / Option fields; payload obtained from a valid one by deleting, nulling or corrupting a random subset of the keys at each struct site, keys of skipped fields sometimes present); \
             oracle: MissingField / custom-missing reports == {non-skipped, no default, key absent}, each once, at the container's location, with the effective key (custom: captured (key, location)); present-but-invalid and null are not missing; on success defaults (+map) exactly when absent, skipped fields equal their default and their payload value is never consumed; \
             non-trivial = >= 1 field predicted missing, or a successful case with absent defaulted / present skipped keys; distinct by (type, payload)",
            (1_200_000, 20_000_000),
        ),
        "C09" => (
            with_repeated_member(gen_c09(reg.clone())),
            test_c09 as TestFn,
            "cases = (derived types with and without deny_unknown_fields (default and custom function, skipped/renamed fields, inside tagged enums); payload extended with 0..5 extra keys per site: near-misses of real keys, names of skipped fields, tag look-alikes, arbitrary strings); \
             oracle: with the attribute, UnknownKey / custom reports == extra keys, each once, at the container's location with the effective keys of the non-skipped fields in declaration order; never for known keys or the tag; without it (metamorphic) value and reports identical with and without the extras and their values never consumed; \
             non-trivial = >= 1 extra key present; distinct by (type, payload)",
            (1_200_000, 20_000_000),
        ),
        "C10" => (
            with_repeated_member(gen_c10(reg.clone())),
            test_c10 as TestFn,
            "cases = (types containing unit-only or internally tagged enums (renamed variants, rename_all, 1..4 variants, variants sharing field names, tag key colliding with a field key); the tag / string is replaced by: each variant name, the identifier, lower/upper case, camelCase, near-misses, arbitrary strings, non-strings of every kind, or removed); \
             oracle: selected variant == the one whose effective name equals the tag exactly (fields by that variant's rules); missing tag => MissingField{tag} at the enum; non-string => IncorrectValueKind{String} at enum.tag; unknown string => one report at the enum and no value; unit enums => UnknownValue with all names in declaration order; \
             non-trivial = the tag/string was manipulated, or dispatch fails, or variants share a field name; distinct by (type, payload)",
            (1_200_000, 20_000_000),
        ),
        "C11" => (
            with_repeated_member(gen_c11(reg.clone())),
            test_c11 as TestFn,
            "cases = (types using call-logging from / try_from (by value and by reference) / map / validate probes and field-level error types, payloads with injected faults so that any subset of the stages fails); \
             oracle: multiset of logged user-function calls (id, argument, location, outcome) == interpreter's prediction (conversion once iff its intermediate deserialized; map once per field of a succeeding container, on top of default/from; validate once with the finished value and the container's location); failures reported once at the field's / container's location; results flow into the value; every field-level error handed to the container's error type exactly once; \
             non-trivial = a stage fails or >= 2 probes run; distinct by (type, payload)",
            (1_200_000, 20_000_000),
        ),
        _ => unreachable!(),
    };
    drive(
        prop,
        tier,
        rule,
        cases,
        reg,
        gen,
        test,
        &[
            "the reference interpreter transcribes the documented semantics (DESIGN.md Appendix A); effective keys are computed by the harness' own rule",
            "for snake_case fields / PascalCase variants without digits or acronyms the camelCase reference is the harness' own rule; for the few identifiers outside that domain (sha256sum, userID, HTTPGet, ...) it is convert_case 0.6 Case::Camel",
        ],
    )
}
