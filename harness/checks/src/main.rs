#![allow(clippy::all)]
mod c01;
mod c02;
mod c03;
mod c04;
mod c05;
mod c12;
mod c13;
mod c14;
mod c15;
mod c16;
mod c17;
mod c18;
mod c19;
mod common;
mod derived;

use dv_core::evidence::Tier;

fn main() {
    let args: Vec<String> = std::env::args().collect();
    if args.len() < 3 {
        eprintln!("usage: dv_check <Cnn> <quick|thorough>   |   dv_check --replay <file>");
        std::process::exit(2);
    }
    // panics crossing deserr::deserialize are caught and judged; keep stderr quiet
    if std::env::var("VERIF_DEBUG").is_err() {
        std::panic::set_hook(Box::new(|_| {}));
    }
    if args[1] == "--replay" {
        std::process::exit(common::replay(&args[2]));
    }
    let tier = match args[2].as_str() {
        "quick" => Tier::Quick,
        "thorough" => Tier::Thorough,
        _ => {
            eprintln!("tier must be quick or thorough");
            std::process::exit(2);
        }
    };
    // replay tier first: saved shrunk cases, no generator involved
    let (ran, skipped, bad) = common::regression_tier(&args[1], tier == Tier::Thorough);
    if ran + skipped > 0 {
        println!("{} replay tier: {ran} saved case(s) re-run, {skipped} skipped (other program set), {} violated", args[1], bad.len());
    }
    let code = match args[1].as_str() {
        "C01" => c01::run(tier),
        "C02" => c02::run(tier),
        "C03" => c03::run(tier),
        "C04" => c04::run(tier),
        "C05" => c05::run(tier),
        "C06" => derived::run("C06", tier),
        "C07" => derived::run("C07", tier),
        "C08" => derived::run("C08", tier),
        "C09" => derived::run("C09", tier),
        "C10" => derived::run("C10", tier),
        "C11" => derived::run("C11", tier),
        "C12" => c12::run(tier),
        "C13" => c13::run(tier),
        "C14" => c14::run(tier),
        "C15" => c15::run(tier),
        "C16" => c16::run(tier),
        "C17" => c17::run(tier),
        "C18" => c18::run(tier),
        "C19" => c19::run(tier),
        p => {
            eprintln!("unknown property {p}");
            2
        }
    };
    std::process::exit(if !bad.is_empty() && code == 0 { 1 } else { code });
}
