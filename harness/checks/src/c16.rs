//! C16 — the derive rejects what it cannot honour instead of ignoring it.
//!
//! A grammar of valid derive inputs, each poisoned with exactly one rejection cause; batches
//! are compiled with `cargo check --message-format=json` in /verif/c16 and every diagnostic
//! is attributed to its item by line.

use dv_core::evidence::{open_known, verif_dir, Report, Tier};
use dv_core::runner::rng_for;
use proptest::test_runner::TestRng;
use rand::Rng;
use serde_json::{json, Value as J};
use std::collections::BTreeMap;
use std::fmt::Write;
use std::process::Command;

const PRELUDE: &str = r#"#![allow(warnings)]
use deserr::{Deserr, DeserializeError, ErrorKind, MergeWithError, ValuePointerRef};
use std::convert::Infallible;
pub struct MyErr;
impl std::fmt::Display for MyErr { fn fmt(&self, f: &mut std::fmt::Formatter<'_>) -> std::fmt::Result { write!(f, "MyErr") } }
impl std::fmt::Debug for MyErr { fn fmt(&self, f: &mut std::fmt::Formatter<'_>) -> std::fmt::Result { write!(f, "MyErr") } }
impl std::error::Error for MyErr {}
pub fn f_from<S, T>(_s: S) -> T { loop {} }
pub fn f_try<S, T>(_s: S) -> Result<T, MyErr> { loop {} }
pub fn f_map<T>(t: T) -> T { t }
pub fn f_missing<E: DeserializeError>(_k: &str, l: ValuePointerRef) -> E {
    deserr::take_cf_content(E::error::<Infallible>(None, ErrorKind::Unexpected { msg: String::new() }, l))
}
pub fn f_unknown<E: DeserializeError>(_k: &str, _a: &[&str], l: ValuePointerRef) -> E {
    deserr::take_cf_content(E::error::<Infallible>(None, ErrorKind::Unexpected { msg: String::new() }, l))
}
pub fn f_validate<T, E: DeserializeError>(t: T, _l: ValuePointerRef) -> Result<T, E> { Ok(t) }
pub struct W<T>(pub T);
"#;

#[derive(Clone, Debug, PartialEq)]
struct AItem {
    text: String,
    poison: bool,
}
type Attrs = Vec<Vec<AItem>>; // one inner Vec per #[deserr(..)]

fn a(text: &str) -> AItem {
    AItem { text: text.to_string(), poison: false }
}
fn px(text: &str) -> AItem {
    AItem { text: text.to_string(), poison: true }
}

#[derive(Clone, Debug, PartialEq)]
struct CField {
    attrs: Attrs,
    name: String,
    ty: String,
    poison: bool,
}

#[derive(Clone, Debug, PartialEq)]
enum VData {
    Unit,
    Named(Vec<CField>),
    Unnamed(String),
}

#[derive(Clone, Debug, PartialEq)]
struct CVariant {
    attrs: Attrs,
    name: String,
    data: VData,
    poison: bool,
}

#[derive(Clone, Debug, PartialEq)]
enum Body {
    Struct(Vec<CField>),
    Enum(Vec<CVariant>),
    Tuple(String),
    UnitStruct,
    Union(Vec<CField>),
    /// raw attribute text placed verbatim (malformed `#[deserr]` forms), then a struct
    RawAttrStruct(String, Vec<CField>),
}

#[derive(Clone, Debug, PartialEq)]
struct CItem {
    attrs: Attrs,
    body: Body,
    /// description of the rejection cause ("" for controls)
    cause: String,
    level: &'static str,
    form: &'static str,
    base: &'static str,
}

fn render_attrs(attrs: &Attrs, indent: &str, out: &mut String) {
    for g in attrs {
        if g.is_empty() {
            continue;
        }
        // an item that is a whole attribute by itself (malformed non-list forms) is printed verbatim
        if g.len() == 1 && g[0].text.starts_with("#[") {
            let _ = writeln!(out, "{indent}{}", g[0].text);
            continue;
        }
        let _ = writeln!(out, "{indent}#[deserr({})]", g.iter().map(|x| x.text.clone()).collect::<Vec<_>>().join(", "));
    }
}

fn render_fields(fs: &[CField], indent: &str, out: &mut String) {
    for f in fs {
        render_attrs(&f.attrs, indent, out);
        let _ = writeln!(out, "{indent}pub {}: {},", f.name, f.ty);
    }
}

fn render(item: &CItem, name: &str) -> String {
    let mut s = String::new();
    s.push_str("#[derive(Deserr)]\n");
    render_attrs(&item.attrs, "", &mut s);
    match &item.body {
        Body::Struct(fs) => {
            let _ = writeln!(s, "pub struct {name} {{");
            render_fields(fs, "    ", &mut s);
            s.push_str("}\n");
        }
        Body::RawAttrStruct(raw, fs) => {
            let _ = writeln!(s, "{raw}");
            let _ = writeln!(s, "pub struct {name} {{");
            render_fields(fs, "    ", &mut s);
            s.push_str("}\n");
        }
        Body::Enum(vs) => {
            let _ = writeln!(s, "pub enum {name} {{");
            for v in vs {
                render_attrs(&v.attrs, "    ", &mut s);
                match &v.data {
                    VData::Unit => {
                        let _ = writeln!(s, "    {},", v.name);
                    }
                    VData::Unnamed(t) => {
                        let _ = writeln!(s, "    {}({t}),", v.name);
                    }
                    VData::Named(fs) => {
                        let _ = writeln!(s, "    {} {{", v.name);
                        for f in fs {
                            render_attrs(&f.attrs, "        ", &mut s);
                            let _ = writeln!(s, "        {}: {},", f.name, f.ty);
                        }
                        s.push_str("    },\n");
                    }
                }
            }
            s.push_str("}\n");
        }
        Body::Tuple(t) => {
            let _ = writeln!(s, "pub struct {name}(pub {t});");
        }
        Body::UnitStruct => {
            let _ = writeln!(s, "pub struct {name};");
        }
        Body::Union(fs) => {
            let _ = writeln!(s, "pub union {name} {{");
            for f in fs {
                let _ = writeln!(s, "    pub {}: {},", f.name, f.ty);
            }
            s.push_str("}\n");
        }
    }
    s
}

struct G<'a> {
    rng: &'a mut TestRng,
}
impl<'a> G<'a> {
    fn below(&mut self, n: usize) -> usize {
        if n == 0 {
            0
        } else {
            self.rng.random_range(0..n)
        }
    }
    fn chance(&mut self, p: f64) -> bool {
        self.rng.random_bool(p)
    }
    fn pick<T: Clone>(&mut self, xs: &[T]) -> T {
        xs[self.below(xs.len())].clone()
    }

    /// distribute items over one or several attribute groups in random order
    fn group(&mut self, mut items: Vec<AItem>) -> Attrs {
        for i in (1..items.len()).rev() {
            let j = self.below(i + 1);
            items.swap(i, j);
        }
        let mut out: Attrs = vec![];
        let mut cur = vec![];
        for it in items {
            cur.push(it);
            if self.chance(0.35) {
                out.push(std::mem::take(&mut cur));
            }
        }
        if !cur.is_empty() {
            out.push(cur);
        }
        out
    }

    fn valid_field(&mut self, name: &str) -> CField {
        let ty = self.pick(&["u8", "String", "Option<u8>", "Vec<u8>", "bool"]).to_string();
        let mut items = vec![];
        let mut fty = ty.clone();
        if self.chance(0.25) {
            items.push(a(&format!("rename = \"{}\"", self.pick(&["renamed", "other", "x y"]))));
        }
        match self.below(8) {
            0 => items.push(a("default")),
            1 => items.push(a("skip")),
            2 => items.push(a("map = f_map")),
            3 => items.push(a("missing_field_error = f_missing::<__Deserr_E>")),
            4 => {
                items.push(a(&format!("from({ty}) = f_from")));
                fty = format!("W<{ty}>");
            }
            5 => {
                items.push(a(&format!("try_from({ty}) = f_try -> MyErr")));
                fty = format!("W<{ty}>");
            }
            _ => {}
        }
        // `skip` with rename etc. is fine for the derive; keep skip alone for clarity
        if items.iter().any(|i| i.text == "skip") {
            items.retain(|i| i.text == "skip");
        }
        CField { attrs: self.group(items), name: name.to_string(), ty: fty, poison: false }
    }

    fn valid_fields(&mut self, min: usize) -> Vec<CField> {
        let names = ["alpha", "beta", "gamma_delta", "id"];
        let n = min + self.below(4 - min + 1);
        (0..n.min(4)).map(|i| self.valid_field(names[i])).collect()
    }

    fn valid_struct(&mut self) -> CItem {
        let mut items = vec![];
        if self.chance(0.4) {
            items.push(a(self.pick(&["rename_all = camelCase", "rename_all = lowercase"])));
        }
        match self.below(4) {
            0 => items.push(a("deny_unknown_fields")),
            1 => items.push(a("deny_unknown_fields = f_unknown::<__Deserr_E>")),
            _ => {}
        }
        if self.chance(0.3) {
            items.push(a("validate = f_validate -> __Deserr_E"));
        }
        CItem { attrs: self.group(items), body: Body::Struct(self.valid_fields(1)), cause: String::new(), level: "", form: "", base: "struct" }
    }

    fn valid_tagged_enum(&mut self) -> CItem {
        let mut items = vec![a("tag = \"kind\"")];
        if self.chance(0.4) {
            items.push(a(self.pick(&["rename_all = camelCase", "rename_all = lowercase"])));
        }
        if self.chance(0.3) {
            items.push(a("deny_unknown_fields"));
        }
        let names = ["First", "SecondOne", "Third"];
        let n = 1 + self.below(3);
        let mut vs = vec![];
        for nm in names.iter().take(n) {
            let mut vi = vec![];
            if self.chance(0.3) {
                vi.push(a(&format!("rename = \"{}\"", self.pick(&["one", "two words"]))));
            }
            if self.chance(0.3) {
                vi.push(a(self.pick(&["rename_all = camelCase", "rename_all = lowercase"])));
            }
            let data = if self.chance(0.35) { VData::Unit } else { VData::Named(self.valid_fields(0)) };
            vs.push(CVariant { attrs: self.group(vi), name: nm.to_string(), data, poison: false });
        }
        CItem { attrs: self.group(items), body: Body::Enum(vs), cause: String::new(), level: "", form: "", base: "tagged-enum" }
    }

    fn valid_unit_enum(&mut self) -> CItem {
        let mut items = vec![];
        if self.chance(0.5) {
            items.push(a(self.pick(&["rename_all = camelCase", "rename_all = lowercase"])));
        }
        let names = ["First", "SecondOne", "Third"];
        let n = 1 + self.below(3);
        let vs = names
            .iter()
            .take(n)
            .map(|nm| {
                let vi = if self.chance(0.3) { vec![a("rename = \"one\"")] } else { vec![] };
                CVariant { attrs: self.group(vi), name: nm.to_string(), data: VData::Unit, poison: false }
            })
            .collect();
        CItem { attrs: self.group(items), body: Body::Enum(vs), cause: String::new(), level: "", form: "", base: "unit-enum" }
    }

    fn valid_via(&mut self) -> CItem {
        let mut items = vec![a(self.pick(&["from(String) = f_from", "try_from(String) = f_try -> MyErr", "from(&String) = f_from", "try_from(&String) = f_try -> MyErr"]))];
        if self.chance(0.3) {
            items.push(a("validate = f_validate -> __Deserr_E"));
        }
        CItem { attrs: self.group(items), body: Body::Tuple("u8".into()), cause: String::new(), level: "", form: "", base: "container-conversion" }
    }

    fn base(&mut self) -> CItem {
        match self.below(7) {
            0..=2 => self.valid_struct(),
            3 | 4 => self.valid_tagged_enum(),
            5 => self.valid_unit_enum(),
            _ => self.valid_via(),
        }
    }

    /// add `first` and `second` (both poison) either into one attribute list or two
    fn add_pair(&mut self, attrs: &mut Attrs, first: &str, second: &str) -> &'static str {
        if self.chance(0.5) {
            // same attribute
            let at = self.below(attrs.len() + 1);
            if at == attrs.len() {
                attrs.push(vec![]);
            }
            attrs[at].push(px(first));
            attrs[at].push(px(second));
            "one-attribute"
        } else {
            let at = self.below(attrs.len() + 1);
            attrs.insert(at.min(attrs.len()), vec![px(first)]);
            attrs.push(vec![px(second)]);
            "two-attributes"
        }
    }

    fn strip(attrs: &mut Attrs, prefixes: &[&str]) {
        for g in attrs.iter_mut() {
            g.retain(|i| !prefixes.iter().any(|p| i.text == *p || i.text.starts_with(&format!("{p} ")) || i.text.starts_with(&format!("{p}("))));
        }
        attrs.retain(|g| !g.is_empty());
    }

    fn poisoned(&mut self) -> CItem {
        let cause = self.below(14);
        match cause {
            // ---- unsupported shapes
            0 => {
                let (body, c): (Body, &str) = match self.below(3) {
                    0 => (Body::Tuple(self.pick(&["u8", "String"]).to_string()), "tuple-struct"),
                    1 => (Body::UnitStruct, "unit-struct"),
                    _ => (Body::Union(vec![CField { attrs: vec![], name: "a".into(), ty: "u8".into(), poison: false }, CField { attrs: vec![], name: "b".into(), ty: "u32".into(), poison: false }]), "union"),
                };
                let mut items = vec![];
                if self.chance(0.3) {
                    items.push(a("rename_all = camelCase"));
                }
                CItem { attrs: self.group(items), body, cause: format!("shape:{c}"), level: "container", form: "-", base: "-" }
            }
            1 => {
                // variant with unnamed data / data-carrying enum without tag
                let tagged = self.chance(0.5);
                let mut it = if tagged { self.valid_tagged_enum() } else { self.valid_unit_enum() };
                let named = !tagged && self.chance(0.4);
                if let Body::Enum(vs) = &mut it.body {
                    let at = self.below(vs.len() + 1);
                    let data = if named { VData::Named(vec![CField { attrs: vec![], name: "x".into(), ty: "u8".into(), poison: false }]) } else { VData::Unnamed(self.pick(&["u8", "String, u8"]).to_string()) };
                    vs.insert(at, CVariant { attrs: vec![], name: "Poisoned".into(), data, poison: true });
                }
                it.cause = if named { "shape:data-carrying-enum-without-tag".into() } else if tagged { "shape:unnamed-variant-data-tagged".into() } else { "shape:unnamed-variant-data-untagged".into() };
                it.level = "variant";
                it.form = "-";
                it
            }
            // ---- unknown attribute
            2 => {
                let mut it = self.base();
                let lvl = self.below(3);
                // where the attribute will really sit, given the base shape
                let actual = match (&it.body, lvl) {
                    (Body::Struct(fs), 1 | 2) if !fs.is_empty() => 2,
                    (Body::Enum(_), 1) => 1,
                    (Body::Enum(vs), 2) if vs.iter().any(|v| matches!(&v.data, VData::Named(fs) if !fs.is_empty())) => 2,
                    _ => 0,
                };
                // unknown names, and attributes that exist at another level only
                let unk = if self.chance(0.5) {
                    self.pick(&["bogus", "bogus = 1", "renam = \"x\"", "tags = \"t\"", "skipped", "denyunknownfields"])
                } else {
                    match actual {
                        0 => self.pick(&["needs_predicate", "skip", "default", "map = f_map", "rename = \"x\"", "missing_field_error = f_missing::<__Deserr_E>"]),
                        1 => self.pick(&["default", "skip", "tag = \"t\"", "deny_unknown_fields", "error = MyErr", "map = f_map"]),
                        _ => self.pick(&["tag = \"t\"", "rename_all = camelCase", "deny_unknown_fields", "validate = f_validate -> __Deserr_E", "where_predicate = T: Copy"]),
                    }
                };
                let mut level = "container";
                match (&mut it.body, lvl) {
                    (Body::Struct(fs), 1 | 2) if !fs.is_empty() => {
                        let i = self.below(fs.len());
                        fs[i].attrs.push(vec![px(unk)]);
                        fs[i].poison = true;
                        level = "field";
                    }
                    (Body::Enum(vs), 1) => {
                        let i = self.below(vs.len());
                        vs[i].attrs.push(vec![px(unk)]);
                        vs[i].poison = true;
                        level = "variant";
                    }
                    (Body::Enum(vs), 2) => {
                        let mut done = false;
                        for v in vs.iter_mut() {
                            if let VData::Named(fs) = &mut v.data {
                                if !fs.is_empty() {
                                    fs[0].attrs.push(vec![px(unk)]);
                                    fs[0].poison = true;
                                    v.poison = true;
                                    level = "field";
                                    done = true;
                                    break;
                                }
                            }
                        }
                        if !done {
                            it.attrs.push(vec![px(unk)]);
                        }
                    }
                    _ => it.attrs.push(vec![px(unk)]),
                }
                it.cause = "unknown-attribute".into();
                it.level = level;
                it.form = "-";
                it
            }
            // ---- container-level duplicates
            3 | 4 => {
                let which = self.pick(&["rename_all", "error", "tag", "deny_unknown_fields", "from", "try_from", "validate"]);
                let (mut it, x, y): (CItem, String, String) = match which {
                    "rename_all" => (self.base_without_via(), "rename_all = camelCase".into(), self.pick(&["rename_all = lowercase", "rename_all = camelCase"]).into()),
                    "error" => (self.base_without_via(), "error = deserr::errors::JsonError".into(), "error = deserr::errors::JsonError".into()),
                    "tag" => (self.valid_tagged_enum(), "tag = \"kind\"".into(), self.pick(&["tag = \"kind\"", "tag = \"other\""]).into()),
                    "deny_unknown_fields" => (self.base_without_via(), "deny_unknown_fields".into(), self.pick(&["deny_unknown_fields", "deny_unknown_fields = f_unknown::<__Deserr_E>"]).into()),
                    "from" => (self.valid_via(), "from(String) = f_from".into(), self.pick(&["from(String) = f_from", "from(u8) = f_from"]).into()),
                    "try_from" => (self.valid_via(), "try_from(String) = f_try -> MyErr".into(), "try_from(u8) = f_try -> MyErr".into()),
                    _ => (self.base_without_via(), "validate = f_validate -> __Deserr_E".into(), "validate = f_validate -> __Deserr_E".into()),
                };
                Self::strip(&mut it.attrs, &[which, "from", "try_from"].iter().filter(|p| **p == which || which == "from" || which == "try_from").cloned().collect::<Vec<_>>());
                if which == "error" {
                    // validate -> __Deserr_E does not exist with a pinned error type
                    Self::strip(&mut it.attrs, &["validate"]);
                    Self::strip_fields(&mut it, &["missing_field_error", "try_from"]);
                }
                let form = self.add_pair(&mut it.attrs, &x, &y);
                it.cause = format!("dup:{which}");
                it.level = "container";
                it.form = form;
                it
            }
            // ---- variant-level duplicates
            5 => {
                let mut it = self.valid_tagged_enum();
                let which = self.pick(&["rename", "rename_all"]);
                let (x, y) = if which == "rename" { ("rename = \"one\"", "rename = \"uno\"") } else { ("rename_all = camelCase", "rename_all = lowercase") };
                let mut form = "-";
                if let Body::Enum(vs) = &mut it.body {
                    let i = self.below(vs.len());
                    Self::strip(&mut vs[i].attrs, &[which]);
                    let mut at = std::mem::take(&mut vs[i].attrs);
                    form = self.add_pair(&mut at, x, y);
                    vs[i].attrs = at;
                    vs[i].poison = true;
                }
                it.cause = format!("dup:{which}");
                it.level = "variant";
                it.form = form;
                it
            }
            // ---- field-level duplicates
            6 | 7 => {
                let which = self.pick(&["rename", "default", "missing_field_error", "error", "map", "from", "try_from"]);
                let (x, y): (String, String) = match which {
                    "rename" => ("rename = \"one\"".into(), "rename = \"uno\"".into()),
                    "default" => (self.pick(&["default", "default = 1"]).into(), self.pick(&["default", "default = 2"]).into()),
                    "missing_field_error" => ("missing_field_error = f_missing::<__Deserr_E>".into(), "missing_field_error = f_missing::<__Deserr_E>".into()),
                    "error" => ("error = __Deserr_E".into(), "error = __Deserr_E".into()),
                    "map" => ("map = f_map".into(), "map = f_map".into()),
                    "from" => ("from(u8) = f_from".into(), "from(u8) = f_from".into()),
                    _ => ("try_from(u8) = f_try -> MyErr".into(), "try_from(u8) = f_try -> MyErr".into()),
                };
                let mut it = if self.chance(0.7) { self.valid_struct() } else { self.valid_tagged_enum() };
                let mut form = "-";
                let mut placed = false;
                let mut fld = CField { attrs: vec![], name: "poisoned".into(), ty: if which == "from" || which == "try_from" { "W<u8>".into() } else { "u8".into() }, poison: true };
                let mut at = vec![];
                form = { let f = self.add_pair(&mut at, &x, &y); let _ = form; f };
                fld.attrs = at;
                match &mut it.body {
                    Body::Struct(fs) => {
                        let i = self.below(fs.len() + 1);
                        fs.insert(i, fld.clone());
                        placed = true;
                    }
                    Body::Enum(vs) => {
                        for v in vs.iter_mut() {
                            if let VData::Named(fs) = &mut v.data {
                                fs.push(fld.clone());
                                v.poison = true;
                                placed = true;
                                break;
                            }
                        }
                        if !placed {
                            vs.push(CVariant { attrs: vec![], name: "Extra".into(), data: VData::Named(vec![fld.clone()]), poison: true });
                        }
                    }
                    _ => {}
                }
                it.cause = format!("dup:{which}");
                it.level = "field";
                it.form = form;
                it
            }
            // ---- from together with try_from
            8 => {
                let container = self.chance(0.5);
                let (x, y) = ("from(u8) = f_from", "try_from(u8) = f_try -> MyErr");
                let (x, y) = if self.chance(0.5) { (x, y) } else { (y, x) };
                if container {
                    let mut it = self.valid_via();
                    Self::strip(&mut it.attrs, &["from", "try_from"]);
                    let form = self.add_pair(&mut it.attrs, x, y);
                    it.cause = "from+try_from".into();
                    it.level = "container";
                    it.form = form;
                    it
                } else {
                    let mut it = self.valid_struct();
                    let mut at = vec![];
                    let form = self.add_pair(&mut at, x, y);
                    if let Body::Struct(fs) = &mut it.body {
                        fs.push(CField { attrs: at, name: "poisoned".into(), ty: "W<u8>".into(), poison: true });
                    }
                    it.cause = "from+try_from".into();
                    it.level = "field";
                    it.form = form;
                    it
                }
            }
            // ---- tag on a struct
            9 => {
                // any struct: plain named struct, or a struct whose container carries from / try_from-free conversion
                let mut it = if self.chance(0.65) {
                    self.valid_struct()
                } else {
                    let mut v = self.valid_via();
                    // `try_from` + tag is its own cause (try_from+tag); keep `from` here
                    Self::strip(&mut v.attrs, &["try_from"]);
                    if !v.attrs.iter().flatten().any(|i| i.text.starts_with("from")) {
                        v.attrs.push(vec![a(self.pick(&["from(String) = f_from", "from(&String) = f_from"]))]);
                    }
                    if self.chance(0.5) {
                        v.body = Body::Struct(vec![CField { attrs: vec![], name: "alpha".into(), ty: "String".into(), poison: false }]);
                    }
                    v
                };
                let at = self.below(it.attrs.len() + 1);
                let form = if at < it.attrs.len() && self.chance(0.5) {
                    it.attrs[at].push(px("tag = \"kind\""));
                    "one-attribute"
                } else {
                    it.attrs.insert(at.min(it.attrs.len()), vec![px("tag = \"kind\"")]);
                    "own-attribute"
                };
                it.cause = "tag-on-struct".into();
                it.level = "container";
                it.form = form;
                it
            }
            // ---- container try_from with rename_all / tag / deny_unknown_fields
            10 | 11 => {
                let other = self.pick(&["rename_all = camelCase", "tag = \"kind\"", "deny_unknown_fields", "deny_unknown_fields = f_unknown::<__Deserr_E>"]);
                let body = if other.starts_with("tag") {
                    Body::Enum(vec![CVariant { attrs: vec![], name: "First".into(), data: VData::Unit, poison: false }])
                } else if self.chance(0.5) {
                    Body::Struct(vec![CField { attrs: vec![], name: "alpha".into(), ty: "u8".into(), poison: false }])
                } else {
                    Body::Tuple("u8".into())
                };
                let mut attrs: Attrs = vec![];
                let tf = self.pick(&["try_from(String) = f_try -> MyErr", "try_from(&String) = f_try -> MyErr"]);
                let (x, y) = if self.chance(0.5) { (tf, other) } else { (other, tf) };
                let form = self.add_pair(&mut attrs, x, y);
                let key = other.split(' ').next().unwrap().to_string();
                CItem { attrs, body, cause: format!("try_from+{key}"), level: "container", form, base: "container-conversion" }
            }
            // ---- invalid rename_all value
            12 => {
                let bad = self.pick(&["rename_all = snake_case", "rename_all = PascalCase", "rename_all = \"camelCase\"", "rename_all = CamelCase", "rename_all = UPPERCASE"]);
                let variant = self.chance(0.3);
                let mut it = if variant { self.valid_tagged_enum() } else { self.base_without_via() };
                if variant {
                    if let Body::Enum(vs) = &mut it.body {
                        let i = self.below(vs.len());
                        Self::strip(&mut vs[i].attrs, &["rename_all"]);
                        vs[i].attrs.push(vec![px(bad)]);
                        vs[i].poison = true;
                    }
                } else {
                    Self::strip(&mut it.attrs, &["rename_all"]);
                    it.attrs.push(vec![px(bad)]);
                }
                it.cause = "invalid-rename_all-value".into();
                it.level = if variant { "variant" } else { "container" };
                it.form = "-";
                it
            }
            // ---- malformed attribute syntax
            _ => {
                let lvl = self.below(3);
                let forms_container = ["rename_all", "rename_all camelCase", "tag", "tag = kind", "tag = 3", "= \"x\"", "deny_unknown_fields extra", "validate = f_validate", "validate", "from(String)", "try_from(String) = f_try", "from = f_from", "error", "where_predicate", "rename_all = camelCase;", "generic_param", "generic_param = 3", "where_predicate = 3", "from() = f_from", "try_from(String, u8) = f_try -> MyErr", "from(String) f_from", "deny_unknown_fields = 3", "error = 3 +"];
                let forms_field = ["rename", "rename = renamed", "rename = 3", "rename \"x\"", "skip extra", "default =", "map", "map = 3", "from(u8)", "try_from(u8) = f_try", "try_from(u8) = f_try ->", "missing_field_error", "error =", "skip; default", "skip = true", "default = 1 2", "from() = f_from", "try_from(u8) -> MyErr", "missing_field_error = 3", "needs_predicate = true"];
                let forms_variant = ["rename", "rename = renamed", "rename_all", "rename_all = ", "rename = \"a\" extra"];
                let raw_forms = ["#[deserr]", "#[deserr()]", "#[deserr = \"x\"]", "#[deserr(,)]"];
                if self.chance(0.2) {
                    let raw = self.pick(&raw_forms);
                    return CItem { attrs: vec![], body: Body::RawAttrStruct(raw.to_string(), vec![CField { attrs: vec![], name: "alpha".into(), ty: "u8".into(), poison: false }]), cause: "malformed-syntax".into(), level: "container", form: "-", base: "struct" };
                }
                if self.chance(0.2) {
                    // the same non-list forms on a field or on a variant
                    let raw = self.pick(&raw_forms);
                    if self.chance(0.5) {
                        let mut it = self.valid_struct();
                        if let Body::Struct(fs) = &mut it.body {
                            fs.push(CField { attrs: vec![vec![px(raw)]], name: "poisoned".into(), ty: "u8".into(), poison: true });
                        }
                        it.cause = "malformed-syntax".into();
                        it.level = "field";
                        it.form = "non-list";
                        return it;
                    } else {
                        let mut it = if self.chance(0.5) { self.valid_tagged_enum() } else { self.valid_unit_enum() };
                        if let Body::Enum(vs) = &mut it.body {
                            let i = self.below(vs.len());
                            vs[i].attrs.push(vec![px(raw)]);
                            vs[i].poison = true;
                        }
                        it.cause = "malformed-syntax".into();
                        it.level = "variant";
                        it.form = "non-list";
                        return it;
                    }
                }
                let mut it = if lvl == 1 { self.valid_tagged_enum() } else { self.valid_struct() };
                let mut level = "container";
                match (&mut it.body, lvl) {
                    (Body::Struct(fs), 2) => {
                        let bad = self.pick(&forms_field);
                        let conv = bad.starts_with("from") || bad.starts_with("try_from");
                        fs.push(CField { attrs: vec![vec![px(bad)]], name: "poisoned".into(), ty: if conv { "W<u8>".into() } else { "u8".into() }, poison: true });
                        level = "field";
                    }
                    (Body::Enum(vs), 1) => {
                        let bad = self.pick(&forms_variant);
                        let i = self.below(vs.len());
                        Self::strip(&mut vs[i].attrs, &["rename", "rename_all"]);
                        vs[i].attrs.push(vec![px(bad)]);
                        vs[i].poison = true;
                        level = "variant";
                    }
                    _ => {
                        let bad = self.pick(&forms_container);
                        let key = bad.split(|c: char| !c.is_alphanumeric() && c != '_').next().unwrap_or("").to_string();
                        if !key.is_empty() {
                            Self::strip(&mut it.attrs, &[key.as_str()]);
                        }
                        it.attrs.push(vec![px(bad)]);
                    }
                }
                it.cause = "malformed-syntax".into();
                it.level = level;
                it.form = "-";
                it
            }
        }
    }

    fn strip_fields(it: &mut CItem, prefixes: &[&str]) {
        let f = |fs: &mut Vec<CField>| {
            for fl in fs.iter_mut() {
                let had_conv = fl.attrs.iter().flatten().any(|i| i.text.starts_with("try_from") || i.text.starts_with("from"));
                Self::strip(&mut fl.attrs, prefixes);
                let has_conv = fl.attrs.iter().flatten().any(|i| i.text.starts_with("try_from") || i.text.starts_with("from"));
                if had_conv && !has_conv {
                    fl.ty = fl.ty.trim_start_matches("W<").trim_end_matches('>').to_string();
                }
            }
        };
        match &mut it.body {
            Body::Struct(fs) => f(fs),
            Body::Enum(vs) => {
                for v in vs {
                    if let VData::Named(fs) = &mut v.data {
                        f(fs)
                    }
                }
            }
            _ => {}
        }
    }

    fn base_without_via(&mut self) -> CItem {
        match self.below(6) {
            0..=2 => self.valid_struct(),
            3 | 4 => self.valid_tagged_enum(),
            _ => self.valid_unit_enum(),
        }
    }
}


// ---------------------------------------------------------------------------------------
// systematic batch: every listed rejection cause once, on minimal bases (a finite list, enumerated completely)

fn min_struct() -> CItem {
    CItem {
        attrs: vec![],
        body: Body::Struct(vec![CField { attrs: vec![], name: "alpha".into(), ty: "u8".into(), poison: false }]),
        cause: String::new(),
        level: "",
        form: "",
        base: "struct",
    }
}
fn min_tagged() -> CItem {
    CItem {
        attrs: vec![vec![a("tag = \"kind\"")]],
        body: Body::Enum(vec![
            CVariant { attrs: vec![], name: "First".into(), data: VData::Named(vec![CField { attrs: vec![], name: "alpha".into(), ty: "u8".into(), poison: false }]), poison: false },
            CVariant { attrs: vec![], name: "Second".into(), data: VData::Unit, poison: false },
        ]),
        cause: String::new(),
        level: "",
        form: "",
        base: "tagged-enum",
    }
}
fn min_unit_enum() -> CItem {
    CItem {
        attrs: vec![],
        body: Body::Enum(vec![
            CVariant { attrs: vec![], name: "First".into(), data: VData::Unit, poison: false },
            CVariant { attrs: vec![], name: "Second".into(), data: VData::Unit, poison: false },
        ]),
        cause: String::new(),
        level: "",
        form: "",
        base: "unit-enum",
    }
}
fn min_via(conv: &str) -> CItem {
    CItem { attrs: vec![vec![a(conv)]], body: Body::Tuple("u8".into()), cause: String::new(), level: "", form: "", base: "container-conversion" }
}

fn with(mut it: CItem, cause: &str, level: &'static str, form: &'static str) -> CItem {
    it.cause = cause.to_string();
    it.level = level;
    it.form = form;
    it
}

/// place one or two poison items at a level of a minimal base; `two` = in two separate attributes
fn place(level: &'static str, base: CItem, x: &str, y: Option<&str>, two: bool, field_ty: &str) -> CItem {
    let mut it = base;
    let groups: Attrs = match (y, two) {
        (None, _) => vec![vec![px(x)]],
        (Some(y), false) => vec![vec![px(x), px(y)]],
        (Some(y), true) => vec![vec![px(x)], vec![px(y)]],
    };
    match level {
        "container" => it.attrs.extend(groups),
        "variant" => {
            if let Body::Enum(vs) = &mut it.body {
                vs[0].attrs.extend(groups);
                vs[0].poison = true;
            }
        }
        _ => match &mut it.body {
            Body::Struct(fs) => fs.push(CField { attrs: groups, name: "poisoned".into(), ty: field_ty.into(), poison: true }),
            Body::Enum(vs) => {
                if let VData::Named(fs) = &mut vs[0].data {
                    fs.push(CField { attrs: groups, name: "poisoned".into(), ty: field_ty.into(), poison: true });
                }
                vs[0].poison = true;
            }
            _ => {}
        },
    }
    it
}

fn systematic_items() -> Vec<CItem> {
    let mut v: Vec<CItem> = vec![];
    // unsupported shapes
    v.push(with(CItem { attrs: vec![], body: Body::Tuple("u8".into()), cause: String::new(), level: "", form: "", base: "-" }, "shape:tuple-struct", "container", "-"));
    v.push(with(CItem { attrs: vec![], body: Body::UnitStruct, cause: String::new(), level: "", form: "", base: "-" }, "shape:unit-struct", "container", "-"));
    v.push(with(
        CItem { attrs: vec![], body: Body::Union(vec![CField { attrs: vec![], name: "a".into(), ty: "u8".into(), poison: false }, CField { attrs: vec![], name: "b".into(), ty: "u32".into(), poison: false }]), cause: String::new(), level: "", form: "", base: "-" },
        "shape:union",
        "container",
        "-",
    ));
    for (tagged, data, cause) in [
        (true, VData::Unnamed("u8".into()), "shape:unnamed-variant-data-tagged"),
        (false, VData::Unnamed("String, u8".into()), "shape:unnamed-variant-data-untagged"),
        (false, VData::Named(vec![CField { attrs: vec![], name: "x".into(), ty: "u8".into(), poison: false }]), "shape:data-carrying-enum-without-tag"),
    ] {
        // the offending variant first, in the middle and last
        for pos in 0..3usize {
            let mut it = if tagged { min_tagged() } else { min_unit_enum() };
            if let Body::Enum(vs) = &mut it.body {
                vs.insert(pos.min(vs.len()), CVariant { attrs: vec![], name: "Poisoned".into(), data: data.clone(), poison: true });
            }
            v.push(with(it, cause, "variant", ["first", "middle", "last"][pos]));
        }
    }
    // unknown and misplaced attributes at every level
    let unknown = ["bogus", "bogus = 1", "renam = \"x\"", "tags = \"t\"", "skipped", "denyunknownfields"];
    let misplaced_container = ["needs_predicate", "skip", "default", "map = f_map", "rename = \"x\"", "missing_field_error = f_missing::<__Deserr_E>"];
    let misplaced_variant = ["default", "skip", "tag = \"t\"", "deny_unknown_fields", "error = MyErr", "map = f_map"];
    let misplaced_field = ["tag = \"t\"", "rename_all = camelCase", "deny_unknown_fields", "validate = f_validate -> __Deserr_E", "where_predicate = T: Copy"];
    for u in unknown.iter().chain(misplaced_container.iter()) {
        v.push(with(place("container", min_struct(), u, None, false, "u8"), "unknown-attribute", "container", "-"));
    }
    for u in unknown.iter().chain(misplaced_variant.iter()) {
        v.push(with(place("variant", min_tagged(), u, None, false, "u8"), "unknown-attribute", "variant", "-"));
        v.push(with(place("variant", min_unit_enum(), u, None, false, "u8"), "unknown-attribute", "variant", "-"));
    }
    for u in unknown.iter().chain(misplaced_field.iter()) {
        v.push(with(place("field", min_struct(), u, None, false, "u8"), "unknown-attribute", "field", "-"));
        v.push(with(place("field", min_tagged(), u, None, false, "u8"), "unknown-attribute", "field", "-"));
    }
    // every single-valued attribute twice, in one attribute and across two
    let cdup: [(&str, &str, &str, u8); 7] = [
        ("rename_all", "rename_all = camelCase", "rename_all = lowercase", 0),
        ("error", "error = deserr::errors::JsonError", "error = deserr::errors::JsonError", 0),
        ("tag", "tag = \"kind\"", "tag = \"other\"", 1),
        ("deny_unknown_fields", "deny_unknown_fields", "deny_unknown_fields = f_unknown::<__Deserr_E>", 0),
        ("from", "from(String) = f_from", "from(u8) = f_from", 2),
        ("try_from", "try_from(String) = f_try -> MyErr", "try_from(u8) = f_try -> MyErr", 2),
        ("validate", "validate = f_validate -> __Deserr_E", "validate = f_validate -> __Deserr_E", 0),
    ];
    for (name, x, y, base) in cdup {
        for two in [false, true] {
            let b = match base {
                0 => min_struct(),
                1 => {
                    let mut t = min_tagged();
                    t.attrs.clear();
                    t
                }
                _ => CItem { attrs: vec![], body: Body::Tuple("u8".into()), cause: String::new(), level: "", form: "", base: "container-conversion" },
            };
            v.push(with(place("container", b, x, Some(y), two, "u8"), &format!("dup:{name}"), "container", if two { "two-attributes" } else { "one-attribute" }));
        }
    }
    for (name, x, y) in [("rename", "rename = \"one\"", "rename = \"uno\""), ("rename_all", "rename_all = camelCase", "rename_all = lowercase")] {
        for two in [false, true] {
            v.push(with(place("variant", min_tagged(), x, Some(y), two, "u8"), &format!("dup:{name}"), "variant", if two { "two-attributes" } else { "one-attribute" }));
        }
    }
    let fdup: [(&str, &str, &str, &str); 9] = [
        ("rename", "rename = \"one\"", "rename = \"uno\"", "u8"),
        ("default", "default", "default = 2", "u8"),
        ("default", "default = 1", "default", "u8"),
        ("default", "default", "default", "u8"),
        ("missing_field_error", "missing_field_error = f_missing::<__Deserr_E>", "missing_field_error = f_missing::<__Deserr_E>", "u8"),
        ("error", "error = __Deserr_E", "error = __Deserr_E", "u8"),
        ("map", "map = f_map", "map = f_map", "u8"),
        ("from", "from(u8) = f_from", "from(u8) = f_from", "W<u8>"),
        ("try_from", "try_from(u8) = f_try -> MyErr", "try_from(u8) = f_try -> MyErr", "W<u8>"),
    ];
    for (name, x, y, ty) in fdup {
        for two in [false, true] {
            for b in [min_struct(), min_tagged()] {
                v.push(with(place("field", b, x, Some(y), two, ty), &format!("dup:{name}"), "field", if two { "two-attributes" } else { "one-attribute" }));
            }
        }
    }
    // from together with try_from
    for (x, y) in [("from(u8) = f_from", "try_from(u8) = f_try -> MyErr"), ("try_from(u8) = f_try -> MyErr", "from(u8) = f_from")] {
        for two in [false, true] {
            let form = if two { "two-attributes" } else { "one-attribute" };
            let b = CItem { attrs: vec![], body: Body::Tuple("u8".into()), cause: String::new(), level: "", form: "", base: "container-conversion" };
            v.push(with(place("container", b, x, Some(y), two, "u8"), "from+try_from", "container", form));
            v.push(with(place("field", min_struct(), x, Some(y), two, "W<u8>"), "from+try_from", "field", form));
        }
    }
    // tag on a struct (plain, and with a container conversion)
    for b in [min_struct(), {
        let mut t = min_via("from(String) = f_from");
        t.body = Body::Struct(vec![CField { attrs: vec![], name: "alpha".into(), ty: "String".into(), poison: false }]);
        t
    }, min_via("from(&String) = f_from")] {
        v.push(with(place("container", b.clone(), "tag = \"kind\"", None, false, "u8"), "tag-on-struct", "container", "own-attribute"));
    }
    // container try_from with rename_all / tag / deny_unknown_fields
    for other in ["rename_all = camelCase", "tag = \"kind\"", "deny_unknown_fields", "deny_unknown_fields = f_unknown::<__Deserr_E>"] {
        for (x, y) in [("try_from(String) = f_try -> MyErr", other), (other, "try_from(&String) = f_try -> MyErr")] {
            for two in [false, true] {
                let body = if other.starts_with("tag") {
                    Body::Enum(vec![CVariant { attrs: vec![], name: "First".into(), data: VData::Unit, poison: false }])
                } else {
                    Body::Struct(vec![CField { attrs: vec![], name: "alpha".into(), ty: "u8".into(), poison: false }])
                };
                let b = CItem { attrs: vec![], body, cause: String::new(), level: "", form: "", base: "container-conversion" };
                let key = other.split(' ').next().unwrap();
                v.push(with(place("container", b, x, Some(y), two, "u8"), &format!("try_from+{key}"), "container", if two { "two-attributes" } else { "one-attribute" }));
            }
        }
    }
    // invalid rename_all values
    for bad in [
        "rename_all = snake_case",
        "rename_all = PascalCase",
        "rename_all = \"camelCase\"",
        "rename_all = \"lowercase\"",
        "rename_all = CamelCase",
        "rename_all = UPPERCASE",
        "rename_all = camelcase",
        "rename_all = CAMELCASE",
        "rename_all = LOWERCASE",
        "rename_all = lowerCase",
        "rename_all = Lowercase",
        "rename_all = camel_case",
        "rename_all = lower",
        "rename_all = camelCase2",
        "rename_all = kebab-case",
    ] {
        v.push(with(place("container", min_struct(), bad, None, false, "u8"), "invalid-rename_all-value", "container", "-"));
        v.push(with(place("variant", min_tagged(), bad, None, false, "u8"), "invalid-rename_all-value", "variant", "-"));
    }
    // malformed syntax
    let forms_container = ["rename_all", "rename_all camelCase", "tag", "tag = kind", "tag = 3", "= \"x\"", "deny_unknown_fields extra", "validate = f_validate", "validate", "from(String)", "try_from(String) = f_try", "from = f_from", "error", "where_predicate", "rename_all = camelCase;", "generic_param", "generic_param = 3", "where_predicate = 3", "from() = f_from", "try_from(String, u8) = f_try -> MyErr", "from(String) f_from", "deny_unknown_fields = 3", "error = 3 +"];
    let forms_field = ["rename", "rename = renamed", "rename = 3", "rename \"x\"", "skip extra", "default =", "map", "map = 3", "from(u8)", "try_from(u8) = f_try", "try_from(u8) = f_try ->", "missing_field_error", "error =", "skip; default", "skip = true", "default = 1 2", "from() = f_from", "try_from(u8) -> MyErr", "missing_field_error = 3", "needs_predicate = true"];
    let forms_variant = ["rename", "rename = renamed", "rename_all", "rename_all = ", "rename = \"a\" extra"];
    for f in forms_container {
        let b = if f.starts_with("tag") { min_unit_enum() } else { min_struct() };
        v.push(with(place("container", b, f, None, false, "u8"), "malformed-syntax", "container", "-"));
    }
    for f in forms_field {
        let ty = if f.starts_with("from") || f.starts_with("try_from") { "W<u8>" } else { "u8" };
        v.push(with(place("field", min_struct(), f, None, false, ty), "malformed-syntax", "field", "-"));
    }
    for f in forms_variant {
        v.push(with(place("variant", min_tagged(), f, None, false, "u8"), "malformed-syntax", "variant", "-"));
    }
    for raw in ["#[deserr]", "#[deserr()]", "#[deserr = \"x\"]", "#[deserr(,)]"] {
        v.push(with(place("container", min_struct(), raw, None, false, "u8"), "malformed-syntax", "container", "non-list"));
        v.push(with(place("field", min_struct(), raw, None, false, "u8"), "malformed-syntax", "field", "non-list"));
        v.push(with(place("variant", min_tagged(), raw, None, false, "u8"), "malformed-syntax", "variant", "non-list"));
        v.push(with(place("variant", min_unit_enum(), raw, None, false, "u8"), "malformed-syntax", "variant", "non-list"));
    }
    v
}

/// single-deletion variants of an item that keep the poison
fn reductions(it: &CItem) -> Vec<CItem> {
    let mut out = vec![];
    // remove one non-poison container attribute item
    for (gi, g) in it.attrs.iter().enumerate() {
        for (ii, x) in g.iter().enumerate() {
            if !x.poison {
                let mut c = it.clone();
                c.attrs[gi].remove(ii);
                out.push(c);
            }
        }
    }
    let red_fields = |fs: &Vec<CField>| -> Vec<Vec<CField>> {
        let mut v = vec![];
        for (i, f) in fs.iter().enumerate() {
            if !f.poison {
                let mut c = fs.clone();
                c.remove(i);
                v.push(c);
            }
            for (gi, g) in f.attrs.iter().enumerate() {
                for (ii, x) in g.iter().enumerate() {
                    if !x.poison && !x.text.starts_with("from") && !x.text.starts_with("try_from") {
                        let mut c = fs.clone();
                        c[i].attrs[gi].remove(ii);
                        v.push(c);
                    }
                }
            }
        }
        v
    };
    match &it.body {
        Body::Struct(fs) => {
            for f2 in red_fields(fs) {
                if !f2.is_empty() {
                    let mut c = it.clone();
                    c.body = Body::Struct(f2);
                    out.push(c);
                }
            }
        }
        Body::Enum(vs) => {
            for (i, v) in vs.iter().enumerate() {
                if !v.poison && vs.len() > 1 {
                    let mut c = it.clone();
                    if let Body::Enum(v2) = &mut c.body {
                        v2.remove(i);
                    }
                    out.push(c);
                }
                for (gi, g) in v.attrs.iter().enumerate() {
                    for (ii, x) in g.iter().enumerate() {
                        if !x.poison {
                            let mut c = it.clone();
                            if let Body::Enum(v2) = &mut c.body {
                                v2[i].attrs[gi].remove(ii);
                            }
                            out.push(c);
                        }
                    }
                }
                if let VData::Named(fs) = &v.data {
                    for f2 in red_fields(fs) {
                        let mut c = it.clone();
                        if let Body::Enum(v2) = &mut c.body {
                            v2[i].data = VData::Named(f2);
                        }
                        out.push(c);
                    }
                }
            }
        }
        _ => {}
    }
    out
}

#[derive(Debug, Clone, Default)]
struct ItemDiag {
    derive_errors: Vec<String>,
    rustc_errors: Vec<String>,
    panicked: bool,
}

/// compile a batch; returns per-item diagnostics, or Err on infrastructure failure
fn compile(items: &[CItem]) -> Result<(Vec<ItemDiag>, bool), String> {
    let dir = verif_dir().join("c16");
    let mut src = String::from(PRELUDE);
    let mut ranges: Vec<(usize, usize)> = vec![];
    let mut line = src.lines().count();
    for (i, it) in items.iter().enumerate() {
        let body = render(it, &format!("T{i}"));
        let text = format!("pub mod item_{i} {{\nuse super::*;\n{body}}}\n");
        let n = text.lines().count();
        ranges.push((line + 1, line + n));
        line += n;
        src.push_str(&text);
    }
    std::fs::create_dir_all(dir.join("src")).map_err(|e| e.to_string())?;
    std::fs::write(dir.join("src/lib.rs"), &src).map_err(|e| e.to_string())?;
    let out = Command::new("cargo")
        .args(["check", "--message-format=json", "--offline", "-q"])
        .current_dir(&dir)
        .env("CARGO_NET_OFFLINE", "true")
        .env("CARGO_TARGET_DIR", verif_dir().join("target").join("c16"))
        .output()
        .map_err(|e| format!("cannot run cargo: {e}"))?;
    let stdout = String::from_utf8_lossy(&out.stdout);
    let mut diags = vec![ItemDiag::default(); items.len()];
    let mut saw_finish = false;
    let mut success = false;
    let mut unattributed = vec![];
    for l in stdout.lines() {
        let Ok(j) = serde_json::from_str::<J>(l) else { continue };
        match j["reason"].as_str() {
            Some("build-finished") => {
                saw_finish = true;
                success = j["success"].as_bool().unwrap_or(false);
            }
            Some("compiler-message") => {
                if j["target"]["name"].as_str() != Some("dv_c16") {
                    continue;
                }
                let m = &j["message"];
                if m["level"].as_str() != Some("error") {
                    continue;
                }
                let text = m["message"].as_str().unwrap_or("").to_string();
                if text.starts_with("aborting due to") || text.starts_with("could not compile") {
                    continue;
                }
                // attribute by the primary span's line (fall back to any span inside lib.rs)
                let mut lines: Vec<usize> = vec![];
                fn collect(sp: &J, lines: &mut Vec<usize>, primary_only: bool) {
                    if let Some(a) = sp.as_array() {
                        for s in a {
                            if s["file_name"].as_str().map(|f| f.ends_with("src/lib.rs")).unwrap_or(false) && (!primary_only || s["is_primary"].as_bool().unwrap_or(false)) {
                                if let Some(n) = s["line_start"].as_u64() {
                                    lines.push(n as usize);
                                }
                            }
                            if let Some(exp) = s.get("expansion") {
                                if !exp.is_null() {
                                    collect(&J::Array(vec![exp["span"].clone()]), lines, false);
                                }
                            }
                        }
                    }
                }
                collect(&m["spans"], &mut lines, true);
                if lines.is_empty() {
                    collect(&m["spans"], &mut lines, false);
                }
                let idx = lines.iter().find_map(|ln| ranges.iter().position(|(a, b)| ln >= a && ln <= b));
                match idx {
                    Some(i) => {
                        if text.contains("proc-macro derive panicked") || text.contains("proc macro panicked") {
                            diags[i].panicked = true;
                        }
                        if m["code"].is_null() {
                            diags[i].derive_errors.push(text);
                        } else {
                            diags[i].rustc_errors.push(text);
                        }
                    }
                    None => unattributed.push(text),
                }
            }
            _ => {}
        }
    }
    if !saw_finish {
        return Err(format!("cargo check did not finish: {}", String::from_utf8_lossy(&out.stderr).chars().take(800).collect::<String>()));
    }
    if !unattributed.is_empty() && std::env::var("VERIF_DEBUG").is_ok() {
        eprintln!("unattributed diagnostics: {unattributed:?}");
    }
    Ok((diags, success))
}

fn signature(it: &CItem, kind: &str) -> String {
    format!("C16|{kind}|{}|{}|{}", it.cause, it.level, it.form)
}

pub fn run(tier: Tier) -> i32 {
    let mut rep = Report::new(
        "C16",
        tier,
        "programs = valid derive inputs from a grammar (structs, tagged enums, unit enums, container conversions with random valid attribute mixes, split randomly over one or several #[deserr(..)]) each poisoned with exactly ONE rejection cause from the property's list \
         (unsupported shape; unknown attribute; each single-valued attribute given twice; from+try_from; tag on a struct; container try_from with rename_all/tag/deny_unknown_fields; invalid rename_all value; malformed syntax) at container, variant or field level, within one attribute or across two; \
         a SYSTEMATIC batch enumerates every listed cause x level x form once on minimal bases (finite list, complete), the other batches are random; each batch is compiled once with `cargo check --message-format=json`; oracle: every poisoned item gets >= 1 error diagnostic without an error code (issued by the derive) and none reading 'derive panicked'; the unpoisoned base items compile with no error at all (control batch); \
         non-trivial = distinct (cause, level, one/two attributes, base shape) combinations; evaluations = poisoned items compiled",
    );
    let known = open_known("C16");
    let seed = rep.seed;
    let mut rng = rng_for(seed, "C16", 0, 0);
    let mut g = G { rng: &mut rng };
    // ---- control batch: the grammar's valid items must compile cleanly
    let controls: Vec<CItem> = (0..tier.pick(120, 400)).map(|_| g.base()).collect();
    match compile(&controls) {
        Err(e) => {
            eprintln!("INFRASTRUCTURE: {e}");
            return 2;
        }
        Ok((diags, success)) => {
            for (i, d) in diags.iter().enumerate() {
                if !d.derive_errors.is_empty() || d.panicked {
                    rep.fail(
                        &format!("C16|valid-input-rejected|{}", controls[i].base),
                        json!({"what": "a valid derive input was rejected by the derive", "diagnostics": d.derive_errors}),
                        json!({"source": render(&controls[i], "T")}),
                    );
                }
            }
            if !success && rep.failures.is_empty() {
                // rustc-level errors in controls: the harness' grammar is wrong -> infrastructure
                let all: Vec<&String> = diags.iter().flat_map(|d| d.rustc_errors.iter()).collect();
                eprintln!("INFRASTRUCTURE: control batch does not compile: {:?}", all.iter().take(5).collect::<Vec<_>>());
                return 2;
            }
            rep.extra.insert("control_items_compiled_cleanly".into(), json!(controls.len()));
        }
    }
    // ---- poisoned batches
    let batches = tier.pick(3, 24);
    let per = 260;
    let mut combos: BTreeMap<String, u64> = BTreeMap::new();
    let mut failing: Vec<(CItem, String)> = vec![];
    let systematic = systematic_items();
    rep.extra.insert("systematic_items".into(), json!(systematic.len()));
    for b in 0..=batches {
        // batch 0 enumerates every listed rejection cause once on minimal bases; the others are random
        let items: Vec<CItem> = if b == 0 { systematic.clone() } else { (0..per).map(|_| g.poisoned()).collect() };
        let (diags, _) = match compile(&items) {
            Ok(x) => x,
            Err(e) => {
                eprintln!("INFRASTRUCTURE: {e}");
                return 2;
            }
        };
        for (i, it) in items.iter().enumerate() {
            rep.stats.evaluations += 1;
            let combo = format!("{}|{}|{}|{}", it.cause, it.level, it.form, it.base);
            *combos.entry(combo.clone()).or_insert(0) += 1;
            rep.stats.nontrivial(&combo);
            rep.stats.class(&format!("cause: {}", it.cause));
            let d = &diags[i];
            if (b <= 1 && i % 60 == 0) || (i == 7 && b == 2) {
                rep.stats.samples.push(json!({"cause": it.cause, "level": it.level, "form": it.form, "source": render(it, "T"), "derive_diagnostics": d.derive_errors}));
            }
            if d.panicked {
                failing.push((it.clone(), "derive-panicked".into()));
            } else if d.derive_errors.is_empty() {
                failing.push((it.clone(), "accepted-silently".into()));
            }
        }
    }
    rep.extra.insert("distinct_combinations".into(), json!(combos.len()));
    // ---- group by signature, delta-debug one representative each
    let mut by_sig: BTreeMap<String, (CItem, String, u64)> = BTreeMap::new();
    for (it, kind) in failing {
        let sig = signature(&it, &kind);
        by_sig.entry(sig).and_modify(|e| e.2 += 1).or_insert((it, kind, 1));
    }
    for (sig, (it, kind, count)) in by_sig {
        if known.contains_key(&sig) {
            *rep.stats.excluded_known.entry(sig).or_insert(0) += count;
            continue;
        }
        // shrink: compile all single-deletion variants together, keep one that still fails
        let mut cur = it.clone();
        for _round in 0..12 {
            let cands = reductions(&cur);
            if cands.is_empty() {
                break;
            }
            let Ok((diags, _)) = compile(&cands) else { break };
            let still = cands.iter().enumerate().find(|(i, _)| if kind == "derive-panicked" { diags[*i].panicked } else { diags[*i].derive_errors.is_empty() && !diags[*i].panicked });
            match still {
                Some((_, c)) => cur = c.clone(),
                None => break,
            }
        }
        let what = if kind == "derive-panicked" {
            "the derive panicked instead of issuing a diagnostic"
        } else {
            "the derive accepted this input without any diagnostic of its own (the poisoned part is silently dropped or overridden)"
        };
        rep.fail(&sig, json!({"what": what, "cause": it.cause, "level": it.level, "form": it.form, "occurrences_in_this_run": count}), json!({"source": render(&cur, "T"), "kind": kind}));
    }
    rep.finish()
}

pub fn replay(j: &J) -> i32 {
    // compile exactly the saved item
    let src = j["case"]["source"].as_str().unwrap_or("").to_string();
    let kind = j["case"]["kind"].as_str().unwrap_or("accepted-silently");
    let item = CItem { attrs: vec![], body: Body::RawAttrStruct(String::new(), vec![]), cause: String::new(), level: "", form: "", base: "" };
    let _ = item;
    let dir = verif_dir().join("c16");
    let text = format!("{PRELUDE}pub mod item_0 {{\nuse super::*;\n{src}}}\n");
    if std::fs::write(dir.join("src/lib.rs"), &text).is_err() {
        return 2;
    }
    let out = Command::new("cargo")
        .args(["check", "--message-format=json", "--offline", "-q"])
        .current_dir(&dir)
        .env("CARGO_TARGET_DIR", verif_dir().join("target").join("c16"))
        .output();
    let Ok(out) = out else { return 2 };
    let stdout = String::from_utf8_lossy(&out.stdout);
    let mut derive_errs = vec![];
    let mut panicked = false;
    for l in stdout.lines() {
        let Ok(m) = serde_json::from_str::<J>(l) else { continue };
        if m["reason"].as_str() == Some("compiler-message") && m["message"]["level"].as_str() == Some("error") {
            let t = m["message"]["message"].as_str().unwrap_or("").to_string();
            if t.contains("derive panicked") {
                panicked = true;
            }
            if m["message"]["code"].is_null() && !t.starts_with("aborting") && !t.starts_with("could not compile") {
                derive_errs.push(t);
            }
        }
    }
    let violated = if kind == "derive-panicked" { panicked } else { derive_errs.is_empty() };
    if violated {
        println!("C16 replay: VIOLATED ({kind}); derive diagnostics: {derive_errs:?}");
        1
    } else {
        println!("C16 replay: the derive rejects this input: {derive_errs:?}");
        0
    }
}
