//! C13 — the serde_json bridge is lossless and self-consistent.

use crate::common::workers;
use dv_core::evidence::{Report, Tier};
use dv_core::genp::{Gen, GenCfg};
use dv_core::pv::PV;
use dv_core::runner::{rng_for, Stats};
use serde_json::{json, Value as J};

use dv_core::bridge::{check_doc, check_literal, literal_class};

fn leaves() -> Vec<J> {
    let mut v = vec![
        J::Null,
        json!(true),
        json!(0),
        json!(1),
        json!(-1),
        json!(u64::MAX),
        json!(i64::MIN),
        json!(i64::MAX),
        json!(9007199254740993u64),
        json!(-9007199254740993i64),
        json!(0.5),
        json!(-0.0),
        json!(0.0),
        json!(1e300),
        json!(5e-324),
        json!(1.8446744073709552e19),
        json!(-9.223372036854778e18),
        json!(""),
        json!("a"),
    ];
    v.push(serde_json::from_str("18446744073709551616").unwrap());
    v.push(serde_json::from_str("-9223372036854775809").unwrap());
    v
}

/// all documents with exactly `n` nodes over the leaf alphabet (containers: arrays, objects keyed a/b/c)
fn docs(n: usize, leaves: &[J], memo: &mut Vec<Vec<J>>) -> Vec<J> {
    if let Some(v) = memo.get(n) {
        if !v.is_empty() || n == 0 {
            return v.clone();
        }
    }
    let mut out = vec![];
    if n == 1 {
        out.extend(leaves.iter().cloned());
        out.push(json!([]));
        out.push(json!({}));
    } else if n >= 2 {
        // children sizes sum to n-1, 1..=3 children
        let rest = n - 1;
        let mut parts: Vec<Vec<usize>> = vec![];
        for a in 1..=rest {
            if a == rest {
                parts.push(vec![a]);
            }
            for b in 1..=rest.saturating_sub(a) {
                if a + b == rest {
                    parts.push(vec![a, b]);
                }
                for c in 1..=rest.saturating_sub(a + b) {
                    if a + b + c == rest {
                        parts.push(vec![a, b, c]);
                    }
                }
            }
        }
        for p in parts {
            let mut combos: Vec<Vec<J>> = vec![vec![]];
            for sz in &p {
                let ds = docs(*sz, leaves, memo);
                let mut next = vec![];
                for c in &combos {
                    for d in &ds {
                        let mut c2 = c.clone();
                        c2.push(d.clone());
                        next.push(c2);
                    }
                }
                combos = next;
            }
            for c in combos {
                out.push(J::Array(c.clone()));
                let keys = ["a", "b", "c"];
                let mut o = serde_json::Map::new();
                for (i, x) in c.into_iter().enumerate() {
                    o.insert(keys[i].to_string(), x);
                }
                out.push(J::Object(o));
            }
        }
    }
    while memo.len() <= n {
        memo.push(vec![]);
    }
    memo[n] = out.clone();
    out
}

fn interesting(v: &J) -> bool {
    fn depth(v: &J) -> usize {
        match v {
            J::Array(a) => 1 + a.iter().map(depth).max().unwrap_or(0),
            J::Object(o) => 1 + o.values().map(depth).max().unwrap_or(0),
            _ => 0,
        }
    }
    fn boundary(v: &J) -> bool {
        match v {
            J::Number(n) => {
                let s = n.to_string();
                let f = n.as_f64().unwrap_or(0.0).abs();
                s.contains('e') || s.contains('.') || f >= 9.0e15 || f == 0.0
            }
            J::Array(a) => a.iter().any(boundary),
            J::Object(o) => o.values().any(boundary),
            _ => false,
        }
    }
    depth(v) >= 2 || boundary(v)
}

pub fn run(tier: Tier) -> i32 {
    let mut rep = Report::new(
        "C13",
        tier,
        "exhaustive: every JSON document with <= 4 nodes over a leaf alphabet of 21 boundary scalars (0, -0.0, u64::MAX, i64::MIN, 2^53+1, subnormal, out-of-range integer literals, ...), arrays and objects; \
         random documents (type-blind generator, boundary-biased numbers, nesting); number LITERAL texts (digits/sign/fraction/exponent around 0, u64::MAX, i64::MIN, 2^53+-1); \
         oracle: deserialize::<serde_json::Value,_,Rec>(v) is Ok and prints to the same text; Value::from(v.into_value()) == v; kind() == into_value().kind() at every node; number class decided independently from the printed form / the literal; \
         non-trivial = the document nests >= 2 levels or contains a number at a class boundary (fraction/exponent, |x| >= 9e15, zero); distinct by document text",
    );
    rep.exhaustive = true;
    let lv = leaves();
    let mut memo: Vec<Vec<J>> = vec![];
    let mut all: Vec<J> = vec![];
    for n in 1..=4 {
        all.extend(docs(n, &lv, &mut memo));
    }
    let w = workers();
    let chunks: Vec<&[J]> = all.chunks(all.len() / w + 1).collect();
    let res: Vec<(Stats, Vec<(String, String, String)>)> = std::thread::scope(|s| {
        let hs: Vec<_> = chunks
            .into_iter()
            .map(|chunk| {
                s.spawn(move || {
                    let mut st = Stats::default();
                    let mut fails = vec![];
                    for (i, d) in chunk.iter().enumerate() {
                        st.evaluations += 1;
                        if interesting(d) {
                            st.nontrivial(&d.to_string());
                        }
                        st.class("exhaustive small document");
                        if i % 50_000 == 7 && st.samples.len() < 2 {
                            st.samples.push(json!({"document": d.to_string()}));
                        }
                        if let Err((sig, what)) = check_doc(d) {
                            if fails.iter().all(|f: &(String, String, String)| f.0 != sig) {
                                fails.push((sig, what, d.to_string()));
                            }
                        }
                    }
                    (st, fails)
                })
            })
            .collect();
        hs.into_iter().map(|h| h.join().unwrap()).collect()
    });
    for (st, fails) in res {
        rep.stats.merge(st);
        for (sig, what, doc) in fails {
            rep.fail(&sig, json!({"what": what}), json!({"json_text": doc}));
        }
    }
    rep.extra.insert("exhaustive_documents".into(), json!(rep.stats.evaluations));
    // number literals
    let mut lits: Vec<String> = vec![];
    let bases: Vec<i128> = vec![0, 1, 9, 10, 255, 1 << 53, (1 << 53) + 1, (1 << 53) - 1, i64::MAX as i128, i64::MAX as i128 + 1, u64::MAX as i128, u64::MAX as i128 + 1, u64::MAX as i128 * 10];
    for b in &bases {
        for sign in ["", "-"] {
            for d in -2i128..=2 {
                let v = b + d;
                if v < 0 {
                    continue;
                }
                let s = format!("{sign}{v}");
                lits.push(s.clone());
                for suffix in [".0", ".5", "e0", "E0", "e1", "e-1", ".0e0", "e+2", ".00", "e19", "e-320", "e308", "e309"] {
                    lits.push(format!("{s}{suffix}"));
                }
            }
        }
    }
    let mut nl = 0u64;
    for l in &lits {
        match check_literal(l) {
            Ok(true) => {
                nl += 1;
                rep.stats.evaluations += 1;
                rep.stats.nontrivial(&l);
                rep.stats.class("number literal");
                if nl % 400 == 1 {
                    rep.stats.samples.push(json!({"literal": l, "class": format!("{:?}", literal_class(l).kind())}));
                }
            }
            Ok(false) => {}
            Err((sig, what)) => rep.fail(&sig, json!({"what": what}), json!({"json_text": l})),
        }
    }
    // random documents
    let n = tier.pick(800_000u64, 16_000_000u64) / w as u64;
    let seed = rep.seed;
    let res: Vec<(Stats, Vec<(String, String, String)>)> = std::thread::scope(|s| {
        let hs: Vec<_> = (0..w)
            .map(|wi| {
                s.spawn(move || {
                    let mut rng = rng_for(seed, "C13", wi, 0);
                    let mut st = Stats::default();
                    let mut fails: Vec<(String, String, String)> = vec![];
                    for i in 0..n {
                        let pv = {
                            let mut g = Gen::new(&mut rng, GenCfg { max_depth: 5, ..GenCfg::default() });
                            g.blind(0)
                        };
                        // shape stress: now and then the document is buried under many container levels (up to the 127
                        // that serde_json's own parser accepts) or sits in / next to a long array or object;
                        // the sizes come from typical thresholds and from the numbers in deserr's sources
                        let pv = if i % 40 == 7 {
                            use rand::Rng;
                            let mut sizes: Vec<usize> = vec![15, 16, 17, 31, 32, 33, 63, 64, 65, 100, 126, 127];
                            sizes.extend(dv_core::genp::dict().ints.iter().filter(|v| **v >= 8 && **v <= 126).flat_map(|v| [*v as usize, *v as usize + 1]));
                            let d = sizes[rng.random_range(0..sizes.len())].min(127);
                            let maps = rng.random_range(0..3);
                            let mut v = pv;
                            for l in 0..d.saturating_sub(v.depth() + 1) {
                                v = if maps == 0 || (maps == 1 && l % 2 == 0) { PV::Seq(vec![v]) } else { PV::Map(vec![("k".to_string(), v)]) };
                            }
                            v
                        } else if i % 40 == 8 {
                            use rand::Rng;
                            let mut sizes: Vec<usize> = vec![16, 17, 32, 33, 64, 65, 128, 129, 255, 256, 257, 300, 1000, 1025, 5000];
                            sizes.extend(dv_core::genp::dict().ints.iter().filter(|v| **v >= 8 && **v <= 5000).flat_map(|v| [*v as usize, *v as usize + 1]));
                            let n = sizes[rng.random_range(0..sizes.len())];
                            let long = if rng.random_range(0..2) == 0 {
                                PV::Seq((0..n).map(|k| if k == n - 1 { pv.clone() } else { PV::Int(k as u64) }).collect())
                            } else {
                                PV::Map((0..n).map(|k| (format!("k{k}"), if k == n - 1 { pv.clone() } else { PV::Int(k as u64) })).collect())
                            };
                            if rng.random_range(0..2) == 0 { long } else { PV::Map(vec![("a".to_string(), PV::Bool(true)), ("list".to_string(), long)]) }
                        } else {
                            pv
                        };
                        let Some(d) = pv.to_json() else { continue };
                        st.evaluations += 1;
                        if i % 40 == 7 || i % 40 == 8 {
                            st.class("random: shape stress (deep or long)");
                        }
                        if interesting(&d) {
                            st.nontrivial(&d.to_string());
                            st.class("random: nested or boundary number");
                        } else {
                            st.class("random: flat");
                        }
                        if i % (n / 2).max(1) == 3 && wi < 3 {
                            st.samples.push(json!({"document": d.to_string()}));
                        }
                        if let Err((sig, _)) = check_doc(&d) {
                            if fails.iter().all(|f| f.0 != sig) {
                                // shrink structurally, keeping the signature
                                let mut cur = pv.clone();
                                let mut idx = 0;
                                while let Some(c) = dv_core::genp::reduction(&cur, idx) {
                                    let still = c.to_json().map(|j| matches!(check_doc(&j), Err((s2, _)) if s2 == sig)).unwrap_or(false);
                                    if still {
                                        cur = c;
                                        idx = 0;
                                    } else {
                                        idx += 1;
                                    }
                                }
                                let j = cur.to_json().unwrap();
                                let what = check_doc(&j).err().map(|e| e.1).unwrap_or_default();
                                fails.push((sig, what, j.to_string()));
                            }
                        }
                    }
                    (st, fails)
                })
            })
            .collect();
        hs.into_iter().map(|h| h.join().unwrap()).collect()
    });
    for (st, fails) in res {
        rep.stats.merge(st);
        for (sig, what, doc) in fails {
            rep.fail(&sig, json!({"what": what}), json!({"json_text": doc}));
        }
    }
    rep.finish()
}

pub fn replay(j: &J) -> i32 {
    let text = j["case"]["json_text"].as_str().unwrap_or("null");
    let r = match serde_json::from_str::<J>(text) {
        Ok(v) => check_doc(&v).and_then(|_| check_literal(text).map(|_| ())),
        Err(e) => {
            eprintln!("not JSON: {e}");
            return 2;
        }
    };
    match r {
        Ok(()) => {
            println!("C13 replay: holds for {text}");
            0
        }
        Err((sig, what)) => {
            println!("C13 replay: VIOLATED [{sig}] {what}");
            1
        }
    }
}
