//! C15 — object member order never changes the outcome.

use crate::common::*;
use dv_core::entry::Src;
use dv_core::evidence::Tier;
use dv_core::oracles;
use dv_core::pv::{path_str, Path, PV};
use dv_core::runner::{Case, Stats, Verdict};
use dv_core::trace::{Event, RKind, Script};
use dv_core::ty::{KeyTy, Ty};
use serde_json::json;

/// keys of some map-typed position collide after parsing (later-wins is order dependent by nature)
fn has_parse_collision(ty: &Ty, pv: &PV, depth: usize) -> bool {
    if depth > 40 {
        return false;
    }
    let ty = ty.resolve();
    match (&ty, pv) {
        (Ty::Option(t), _) | (Ty::Boxed(t), _) => has_parse_collision(t, pv, depth + 1),
        (Ty::Via(v), _) => has_parse_collision(&v.inner, pv, depth + 1),
        (Ty::Map { key, val, .. }, PV::Map(m)) => {
            if *key != KeyTy::Str {
                let mut parsed: Vec<_> = m.iter().filter_map(|(k, _)| key.parse(k)).collect();
                let n = parsed.len();
                parsed.sort();
                parsed.dedup();
                if parsed.len() != n {
                    return true;
                }
            }
            m.iter().any(|(_, v)| has_parse_collision(val, v, depth + 1))
        }
        (Ty::Vec(t), PV::Seq(s)) | (Ty::HashSet(t), PV::Seq(s)) | (Ty::BTreeSet(t), PV::Seq(s)) | (Ty::Array(t, _), PV::Seq(s)) => {
            s.iter().any(|v| has_parse_collision(t, v, depth + 1))
        }
        (Ty::Tuple(ts), PV::Seq(s)) => ts.iter().zip(s.iter()).any(|(t, v)| has_parse_collision(t, v, depth + 1)),
        (Ty::Struct(_), PV::Map(m)) | (Ty::TaggedEnum(_), PV::Map(m)) => m.iter().any(|(k, v)| {
            oracles::type_at(&ty, &[dv_core::pv::Step::Key(k.clone())], pv).map(|t| has_parse_collision(&t, v, depth + 1)).unwrap_or(false)
        }),
        _ => false,
    }
}

fn permute_all(pv: &PV, seed: &mut u64) -> PV {
    fn next(seed: &mut u64) -> u64 {
        *seed = seed.wrapping_mul(6364136223846793005).wrapping_add(1442695040888963407);
        *seed >> 33
    }
    match pv {
        PV::Seq(s) => PV::Seq(s.iter().map(|x| permute_all(x, seed)).collect()),
        PV::Map(m) => {
            let mut m2: Vec<(String, PV)> = m.iter().map(|(k, v)| (k.clone(), permute_all(v, seed))).collect();
            for i in (1..m2.len()).rev() {
                let j = (next(seed) % (i as u64 + 1)) as usize;
                m2.swap(i, j);
            }
            PV::Map(m2)
        }
        x => x.clone(),
    }
}

/// paths of all objects with 2..=4 members
fn small_objects(pv: &PV, cur: &mut Path, out: &mut Vec<Path>) {
    match pv {
        PV::Seq(s) => {
            for (i, x) in s.iter().enumerate() {
                cur.push(dv_core::pv::Step::Index(i));
                small_objects(x, cur, out);
                cur.pop();
            }
        }
        PV::Map(m) => {
            if m.len() >= 2 && m.len() <= 4 {
                out.push(cur.clone());
            }
            for (k, x) in m {
                cur.push(dv_core::pv::Step::Key(k.clone()));
                small_objects(x, cur, out);
                cur.pop();
            }
        }
        _ => {}
    }
}

fn with_perm_at(pv: &PV, path: &[dv_core::pv::Step], perm: &[usize]) -> PV {
    if path.is_empty() {
        if let PV::Map(m) = pv {
            return PV::Map(perm.iter().map(|i| m[*i].clone()).collect());
        }
        return pv.clone();
    }
    match (pv, &path[0]) {
        (PV::Seq(s), dv_core::pv::Step::Index(i)) => {
            let mut s2 = s.clone();
            s2[*i] = with_perm_at(&s[*i], &path[1..], perm);
            PV::Seq(s2)
        }
        (PV::Map(m), dv_core::pv::Step::Key(k)) => {
            let mut m2 = m.clone();
            if let Some(p) = m2.iter().position(|(kk, _)| kk == k) {
                m2[p].1 = with_perm_at(&m[p].1, &path[1..], perm);
            }
            PV::Map(m2)
        }
        _ => pv.clone(),
    }
}

fn perms(n: usize) -> Vec<Vec<usize>> {
    fn rec(cur: &mut Vec<usize>, used: &mut Vec<bool>, n: usize, out: &mut Vec<Vec<usize>>) {
        if cur.len() == n {
            out.push(cur.clone());
            return;
        }
        for i in 0..n {
            if !used[i] {
                used[i] = true;
                cur.push(i);
                rec(cur, used, n, out);
                cur.pop();
                used[i] = false;
            }
        }
    }
    let mut out = vec![];
    rec(&mut vec![], &mut vec![false; n], n, &mut out);
    out
}

/// (value, reports the error type received, reports the returned error holds)
fn summary(out: &dv_core::entry::Outcome) -> (Option<dv_core::model::M>, Vec<(String, String)>, Vec<(String, String)>) {
    let all: Vec<(u32, (String, String))> = out
        .trace
        .iter()
        .filter_map(|ev| if let Event::Report { id, kind, loc, .. } = ev { Some((*id, (path_str(loc), show_sorted(kind)))) } else { None })
        .collect();
    let mut reps: Vec<(String, String)> = all.iter().map(|x| x.1.clone()).collect();
    reps.sort();
    let mut held: Vec<(String, String)> = match &out.result {
        Ok(_) => vec![],
        Err(ids) => ids.iter().filter_map(|i| all.iter().find(|(id, _)| id == i).map(|x| x.1.clone())).collect(),
    };
    held.sort();
    (out.result.clone().ok(), reps, held)
}

/// report content, with payload-derived `actual` values rendered order-insensitively
fn show_sorted(k: &RKind) -> String {
    fn canon(pv: &PV) -> PV {
        match pv {
            PV::Seq(s) => PV::Seq(s.iter().map(canon).collect()),
            PV::Map(m) => {
                let mut m2: Vec<(String, PV)> = m.iter().map(|(k, v)| (k.clone(), canon(v))).collect();
                m2.sort_by(|a, b| a.0.cmp(&b.0));
                PV::Map(m2)
            }
            x => x.clone(),
        }
    }
    match k {
        RKind::IncorrectValueKind { actual, accepted } => {
            dv_core::trace::show_kind(&RKind::IncorrectValueKind { actual: canon(actual), accepted: accepted.clone() })
        }
        RKind::BadSequenceLen { actual, expected } => {
            dv_core::trace::show_kind(&RKind::BadSequenceLen { actual: canon(actual), expected: *expected })
        }
        k => dv_core::trace::show_kind(k),
    }
}

pub fn test(reg: &Reg, case: &Case, stats: Option<&mut Stats>) -> Verdict {
    let e = &reg.entries[case.ty];
    // (repeated members that carry one and the same value cannot make the order matter; other duplicates can)
    if (case.payload.has_dup_keys() && !case.payload.dups_are_clones()) || has_parse_collision(&e.ty, &case.payload, 0) {
        if let Some(st) = stats {
            st.class("skipped: duplicate or post-parse colliding keys");
        }
        return Verdict::Ok;
    }
    let sc = Script::all_continue();
    let base = oracles::run(e, &case.payload, Src::Ov, &sc);
    if base.panicked.is_some() {
        return Verdict::Ok;
    }
    let base_sum = summary(&base);
    let mut variants: Vec<PV> = vec![];
    let mut objs = vec![];
    small_objects(&case.payload, &mut vec![], &mut objs);
    // all permutations of each small object, one object at a time (bounded)
    for p in objs.iter().take(6) {
        let n = case.payload.resolve_all(p).first().map(|v| if let PV::Map(m) = v { m.len() } else { 0 }).unwrap_or(0);
        for perm in perms(n).into_iter().skip(1) {
            variants.push(with_perm_at(&case.payload, p, &perm));
        }
    }
    // random global permutations
    let mut seed = case.aux | 1;
    for _ in 0..3 {
        variants.push(permute_all(&case.payload, &mut seed));
    }
    let mut execs = 1u64;
    for v in &variants {
        if *v == case.payload {
            continue;
        }
        let out = oracles::run(e, v, Src::Ov, &sc);
        execs += 1;
        if out.panicked.is_some() {
            continue;
        }
        let s = summary(&out);
        if s != base_sum {
            let what = if s.0 != base_sum.0 {
                "value-differs"
            } else if s.1 != base_sum.1 {
                "reports-differ"
            } else {
                "reports-held-by-returned-error-differ"
            };
            return Verdict::Violation(
                format!("C15|{what}|{}", e.ty.ctor()),
                json!({"what": format!("permuting object members changed the outcome ({what})"),
                       "payload": case.payload.show(), "permuted": v.show(),
                       "outcome": format!("{:?}", base_sum), "outcome_permuted": format!("{:?}", s)}),
            );
        }
    }
    if let Some(st) = stats {
        st.executions += execs;
        let interesting = !objs.is_empty() && (!base_sum.1.is_empty() || case.faults > 0 || matches!(e.ty.resolve(), Ty::TaggedEnum(_)));
        if interesting {
            st.nontrivial(&(case.ty, &case.payload));
        }
        st.class(if objs.is_empty() { "no object with 2..4 members" } else { "has object with 2..4 members" });
        st.class(if base_sum.1.is_empty() { "clean payload" } else { "faulty payload" });
        st.class(&format!("origin: {}", e.origin));
        if st.want_sample() && !objs.is_empty() {
            st.samples.push(sample_json(reg, case, json!({"permutations_tried": variants.len(), "reports": base_sum.1})));
        }
    }
    Verdict::Ok
}

pub fn run(tier: Tier) -> i32 {
    let reg = registry();
    // types that contain objects: derived types and maps
    let eligible: Vec<usize> = reg
        .all()
        .into_iter()
        .filter(|i| {
            let t = &reg.entries[*i].ty;
            t.has_derived() || format!("{t:?}").contains("Map {") || matches!(t, Ty::Json) || format!("{t:?}").contains("Json")
        })
        .collect();
    let gen = with_repeated_member(case_gen(reg.clone(), eligible, GenOpts { blind: 0.03, nonfinite: true, ..GenOpts::default() }));
    drive(
        "C15",
        tier,
        "cases = (type containing objects, payload without duplicate or post-parse-colliding keys) through the order-preserving source OV; every permutation of each object with 2..4 members \
         (one object at a time, up to 6 objects) plus 3 random global permutations; oracle (metamorphic): result value identical, multiset of (location, report) received by the error type identical under all-Continue, and the multiset held by the returned error identical; \
         non-trivial = some permuted object exists and the payload is faulty / has injected faults / the target is a tagged enum; distinct by (type, payload)",
        (400_000, 6_000_000),
        reg,
        gen,
        test,
        &["generated keys never collide after parsing (later-wins is order-dependent by nature)", "`actual` values quoted inside reports are compared up to member order"],
    )
}
