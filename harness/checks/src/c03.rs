//! C03 — a stop answer ends the work; fail-fast result = first keep-going report.

use crate::common::*;
use deserr::errors::{JsonError, QueryParamError};
use dv_core::evidence::Tier;
use dv_core::oracles;
use dv_core::runner::{Case, Stats, Verdict};
use dv_core::trace::{n_decisions, Event, Script};
use serde_json::json;

pub fn test(reg: &Reg, case: &Case, mut stats: Option<&mut Stats>) -> Verdict {
    let e = &reg.entries[case.ty];
    let src = src_for(case);
    let inf = oracles::run(e, &case.payload, src, &Script::all_continue());
    if inf.panicked.is_some() {
        return Verdict::Ok; // C12's business
    }
    let n = n_decisions(&inf.trace);
    let mut execs = 1u64;
    let history = |t: &[Event]| dv_core::trace::show_trace(t);
    // every switch position k - for the rare monster cases (hundreds of decisions in a very long container) a
    // spread of 48 positions: the cost of a case is otherwise quadratic in its size
    let ks: Vec<usize> = if n <= 48 {
        (0..n).collect()
    } else {
        let mut v: Vec<usize> = (0..16).chain(n - 16..n).collect();
        let mut x = case.aux | 1;
        for _ in 0..16 {
            x = x.wrapping_mul(6364136223846793005).wrapping_add(1442695040888963407);
            v.push(16 + (x >> 33) as usize % (n - 32));
        }
        v.sort();
        v.dedup();
        v
    };
    for k in ks {
        let outk = oracles::run(e, &case.payload, src, &Script::break_at(k));
        execs += 1;
        if let Err((sig, what)) = oracles::c03_at_k(&inf.trace, k, &outk) {
            return Verdict::Violation(
                sig,
                json!({"what": what, "k": k, "keep_going_history": history(&inf.trace), "history_with_break": history(&outk.trace)}),
            );
        }
        // the error handed back is built from exactly the reports made so far
        if let Err((sig, what)) = oracles::c01(e, &case.payload, &outk) {
            return Verdict::Violation(format!("C03|{sig}"), json!({"what": what, "k": k, "history_with_break": history(&outk.trace)}));
        }
    }
    // EVERY answer sequence when the keep-going run has few decisions (2^n scripts, n <= 6)
    if n >= 2 && n <= 6 {
        for mask in 0u32..(1u32 << n) {
            let sc = Script { answers: (0..n).map(|i| mask & (1 << i) == 0).collect(), default: true };
            if sc.is_all_continue() {
                continue;
            }
            let o = oracles::run(e, &case.payload, src, &sc);
            execs += 1;
            if let Err((sig, what)) = oracles::c03_random(e, &case.payload, src, &o) {
                return Verdict::Violation(sig, json!({"what": what, "script": sc.show(), "history": history(&o.trace)}));
            }
            if let Err((sig, what)) = oracles::c01(e, &case.payload, &o) {
                return Verdict::Violation(format!("C03|{sig}"), json!({"what": what, "script": sc.show(), "history": history(&o.trace)}));
            }
        }
    }
    // the case's own (arbitrary) script
    if !case.script.is_all_continue() {
        let outr = oracles::run(e, &case.payload, src, &case.script);
        execs += 1;
        if let Err((sig, what)) = oracles::c03_random(e, &case.payload, src, &outr) {
            return Verdict::Violation(sig, json!({"what": what, "script": case.script.show(), "history": history(&outr.trace)}));
        }
    }
    // always-stop built-in error types return exactly the first report of the keep-going run
    let mut compared_builtin = false;
    if !case.payload.has_dup_keys() && !case.payload.has_nonfinite() {
        if let (Some(jf), Some(qf)) = (e.json_err, e.query_err) {
            // the keep-going run over the same source
            let infj = if src == dv_core::entry::Src::Json { inf.clone() } else { oracles::run(e, &case.payload, dv_core::entry::Src::Json, &Script::all_continue()) };
            execs += 3;
            let first = infj.trace.iter().find_map(|ev| if let Event::Report { kind, loc, .. } = ev { Some((kind, loc)) } else { None });
            let got_j = jf(&case.payload);
            let got_q = qf(&case.payload);
            for (name, got, want) in [
                ("JsonError", got_j, first.and_then(|(k, l)| oracles::rerender::<JsonError>(k, l)).map(|e| e.to_string())),
                ("QueryParamError", got_q, first.and_then(|(k, l)| oracles::rerender::<QueryParamError>(k, l)).map(|e| e.to_string())),
            ] {
                let Ok(got) = got else { continue };
                compared_builtin = true;
                match (&got, first) {
                    (Ok(_), None) => {}
                    (Ok(m), Some((k, l))) => {
                        return Verdict::Violation(
                            format!("C03|{name}-ok-but-keep-going-run-reports"),
                            json!({"what": format!("{name} run returned Ok({}) but the keep-going run reports {} at {}", m.show(), dv_core::trace::show_kind(k), dv_core::pv::path_str(l))}),
                        );
                    }
                    (Err(msg), None) => {
                        return Verdict::Violation(
                            format!("C03|{name}-err-but-keep-going-run-clean"),
                            json!({"what": format!("{name} run failed with {msg:?} but the keep-going run made no report")}),
                        );
                    }
                    (Err(msg), Some((k, l))) => {
                        if let Some(w) = &want {
                            if msg != w {
                                return Verdict::Violation(
                                    format!("C03|{name}-is-not-first-keep-going-report"),
                                    json!({"what": format!("{name} run returned {msg:?}; the first report of the keep-going run is {} at {} which {name} renders as {w:?}", dv_core::trace::show_kind(k), dv_core::pv::path_str(l)),
                                           "keep_going_history": history(&infj.trace)}),
                                );
                            }
                        }
                    }
                }
            }
        }
    }
    if let Some(st) = stats.as_deref_mut() {
        st.executions += execs;
        let reports = inf.trace.iter().filter(|ev| matches!(ev, Event::Report { .. })).count();
        if n >= 3 || (n >= 1 && reports >= 1 && case.payload.size() >= 4) {
            st.nontrivial(&(case.ty, &case.payload));
        }
        st.class(match n {
            0 => "0 decisions",
            1 => "1 decision",
            2 => "2 decisions",
            3..=5 => "3-5 decisions",
            _ => ">=6 decisions",
        });
        if compared_builtin {
            st.class("compared with JsonError/QueryParamError");
        }
        st.class(&format!("origin: {}", e.origin));
        if st.want_sample() && n > 0 {
            st.samples.push(sample_json(reg, case, json!({"decisions_in_keep_going_run": n, "switch_positions_tried": n.min(48), "keep_going_history": history(&inf.trace)})));
        }
    }
    Verdict::Ok
}

pub fn run(tier: Tier) -> i32 {
    let reg = registry();
    let gen = case_gen(
        reg.clone(),
        reg.all(),
        GenOpts { dup_keys: true, nonfinite: true, scripts: ScriptMode::Mixed, blind: 0.05, min_fault: 0.06, ..GenOpts::default() },
    );
    drive(
        "C03",
        tier,
        "cases = (type, payload, source); for each: the keep-going run T_inf with n decisions, then EVERY switch position k in 0..n (Continue^k then Break forever; a spread of 48 positions when n > 48), EVERY one of the 2^n answer sequences when n <= 6, plus the case's arbitrary script; \
         oracle: history up to decision k identical to T_inf; afterwards only hand-overs of the error just built, climbing towards the root (no report, no payload visit, no user-function call); Err returned and built from exactly the reports so far; \
         deserialize with JsonError / QueryParamError == public-API rendering of the first report of T_inf; non-trivial = n >= 3, or a report in a payload of >= 4 nodes; distinct by (type, payload)",
        (400_000, 6_000_000),
        reg,
        gen,
        test,
        &["'nothing further is examined' is observed through OV visits and probe calls; CPU work that touches neither is invisible"],
    )
}
