//! C12 — deserialize is total: it returns Ok or Err, it never panics.

use crate::common::*;
use dv_core::evidence::Tier;
use dv_core::oracles;
use dv_core::runner::{Case, Stats, Verdict};
use dv_core::trace::Event;
use serde_json::json;

pub fn test(reg: &Reg, case: &Case, stats: Option<&mut Stats>) -> Verdict {
    let e = &reg.entries[case.ty];
    let src = src_for(case);
    let out = oracles::run(e, &case.payload, src, &case.script);
    let mut msg_panic = None;
    // the fail-fast built-in error types too (serde_json source only)
    if !case.payload.has_dup_keys() && !case.payload.has_nonfinite() && case.aux & 2 == 0 {
        if let Some(f) = e.json_err {
            if let Err(p) = f(&case.payload) {
                msg_panic = Some(("JsonError", p));
            }
        }
        if let Some(f) = e.query_err {
            if let Err(p) = f(&case.payload) {
                msg_panic = Some(("QueryParamError", p));
            }
        }
    }
    if let Some(st) = stats {
        st.executions += 1;
        let nrep = out.trace.iter().filter(|ev| matches!(ev, Event::Report { .. })).count();
        let depth = case.payload.depth();
        if (nrep >= 2 || case.payload.has_dup_keys() || depth >= 16) && !case.script.is_all_break() {
            st.nontrivial(&(case.ty, &case.payload, &case.script.answers, case.script.default));
        }
        st.class(match nrep {
            0 => "0 reports",
            1 => "1 report",
            _ => ">=2 reports",
        });
        if depth >= 16 {
            st.class("depth >= 16");
        }
        if depth >= 100 {
            st.class("depth >= 100");
        }
        if case.payload.has_dup_keys() {
            st.class("duplicate keys");
        }
        if case.payload.has_nonfinite() {
            st.class("non-finite float");
        }
        st.class(&format!("origin: {}", e.origin));
        if st.want_sample() {
            st.samples.push(sample_json(reg, case, json!({"returned": if out.result.is_ok() { "Ok" } else { "Err" }, "reports": nrep})));
        }
    }
    if let Some(p) = &out.panicked {
        let frame = p.split(" at ").next().unwrap_or(p);
        return Verdict::Violation(
            format!("C12|panic|Rec|{}", frame.chars().take(60).collect::<String>()),
            json!({"what": format!("deserr::deserialize::<{}, _, Rec> panicked: {p}", e.name), "history": dv_core::trace::show_trace(&out.trace)}),
        );
    }
    if let Some((which, p)) = msg_panic {
        return Verdict::Violation(
            format!("C12|panic|{which}|{}", p.chars().take(60).collect::<String>()),
            json!({"what": format!("deserr::deserialize::<{}, serde_json::Value, {which}> panicked: {p}", e.name)}),
        );
    }
    Verdict::Ok
}

pub fn run(tier: Tier) -> i32 {
    let reg = registry();
    let gen = case_gen(
        reg.clone(),
        reg.all(),
        GenOpts { dup_keys: true, nonfinite: true, scripts: ScriptMode::Mixed, blind: 0.3, deep: 0.03, ..GenOpts::default() },
    );
    drive(
        "C12",
        tier,
        "cases = (every catalogue type, type-directed payloads with faults / type-blind payloads / nests of depth 16..128 / duplicate keys / non-finite floats / extreme numbers, \
         both sources, arbitrary answer scripts; additionally the same payload through JsonError and QueryParamError); oracle: catch_unwind around exactly deserr::deserialize returns normally; \
         non-trivial = (>= 2 reports or duplicate keys or depth >= 16) and the script is not all-Break; distinct by (type, payload, script)",
        (3_200_000, 60_000_000),
        reg,
        gen,
        test,
        &["stack exhaustion beyond the nesting depth serde_json accepts (128) is out of scope by the property's wording", "a panic inside harness code is an infrastructure error, not a violation"],
    )
}
