//! C18 — did-you-mean suggests only a closest accepted name within the typo budget.

use deserr::errors::helpers::did_you_mean;
use dv_core::evidence::{Report, Tier};
use dv_core::runner::rng_for;
use rand::Rng;
use serde_json::json;
use std::collections::{HashMap, HashSet, VecDeque};

/// unrestricted Damerau–Levenshtein over chars (Lowrance–Wagner), written independently
pub fn dl(a: &str, b: &str) -> usize {
    let a: Vec<char> = a.chars().collect();
    let b: Vec<char> = b.chars().collect();
    let (n, m) = (a.len(), b.len());
    if n == 0 {
        return m;
    }
    if m == 0 {
        return n;
    }
    let inf = n + m;
    let mut da: HashMap<char, usize> = HashMap::new();
    // d has an extra leading row/column
    let mut d = vec![vec![0usize; m + 2]; n + 2];
    d[0][0] = inf;
    for i in 0..=n {
        d[i + 1][0] = inf;
        d[i + 1][1] = i;
    }
    for j in 0..=m {
        d[0][j + 1] = inf;
        d[1][j + 1] = j;
    }
    for i in 1..=n {
        let mut db = 0usize;
        for j in 1..=m {
            let i1 = *da.get(&b[j - 1]).unwrap_or(&0);
            let j1 = db;
            let cost = if a[i - 1] == b[j - 1] {
                db = j;
                0
            } else {
                1
            };
            let sub = d[i][j] + cost;
            let ins = d[i + 1][j] + 1;
            let del = d[i][j + 1] + 1;
            let tr = d[i1][j1] + (i - i1 - 1) + 1 + (j - j1 - 1);
            d[i + 1][j + 1] = sub.min(ins).min(del).min(tr);
        }
        da.insert(a[i - 1], i);
    }
    d[n + 1][m + 1]
}

/// breadth-first search over single edit operations (insert, delete, substitute, transpose
/// adjacent) on a tiny alphabet: the definition itself, used to cross-check `dl`
fn bfs_dist(a: &str, b: &str, alphabet: &[char], maxlen: usize) -> usize {
    let start: Vec<char> = a.chars().collect();
    let goal: Vec<char> = b.chars().collect();
    let mut seen: HashSet<Vec<char>> = HashSet::new();
    let mut q = VecDeque::new();
    seen.insert(start.clone());
    q.push_back((start, 0usize));
    while let Some((s, d)) = q.pop_front() {
        if s == goal {
            return d;
        }
        let mut next: Vec<Vec<char>> = vec![];
        for i in 0..s.len() {
            let mut t = s.clone();
            t.remove(i);
            next.push(t);
            for &c in alphabet {
                if c != s[i] {
                    let mut t = s.clone();
                    t[i] = c;
                    next.push(t);
                }
            }
            if i + 1 < s.len() && s[i] != s[i + 1] {
                let mut t = s.clone();
                t.swap(i, i + 1);
                next.push(t);
            }
        }
        if s.len() < maxlen {
            for i in 0..=s.len() {
                for &c in alphabet {
                    let mut t = s.clone();
                    t.insert(i, c);
                    next.push(t);
                }
            }
        }
        for t in next {
            if seen.insert(t.clone()) {
                q.push_back((t, d + 1));
            }
        }
    }
    usize::MAX
}

pub fn budget(received: &str) -> Option<usize> {
    match received.len() {
        0..=3 => None,
        4..=7 => Some(1),
        8..=12 => Some(2),
        13..=17 => Some(3),
        18..=24 => Some(4),
        _ => Some(5),
    }
}

/// reference: index of the accepted string to suggest, if any
pub fn reference(received: &str, accepted: &[String]) -> Option<usize> {
    let b = budget(received)?;
    let mut best: Option<(usize, usize)> = None;
    for (i, a) in accepted.iter().enumerate() {
        let d = dl(received, a);
        if d <= b && best.map(|(_, bd)| d < bd).unwrap_or(true) {
            best = Some((i, d));
        }
    }
    best.map(|x| x.0)
}

fn check(received: &str, accepted: &[String]) -> Result<(), (String, String)> {
    let acc: Vec<&str> = accepted.iter().map(|s| s.as_str()).collect();
    let r = received.to_string();
    let got = std::panic::catch_unwind(|| did_you_mean(&r, &acc))
        .map_err(|p| ("panic".to_string(), format!("panicked: {}", dv_core::entry::panic_msg(p))))?;
    match reference(received, accepted) {
        None => {
            if !got.is_empty() {
                let why = if budget(received).is_none() { "received-too-short" } else { "beyond-budget" };
                return Err((
                    format!("suggestion-when-none-allowed|{why}"),
                    format!("did_you_mean({received:?}, {accepted:?}) = {got:?}, expected no suggestion"),
                ));
            }
        }
        Some(i) => {
            let want = &accepted[i];
            if got.is_empty() {
                return Err((
                    "missing-suggestion".into(),
                    format!("did_you_mean({received:?}, {accepted:?}) is empty, expected a suggestion of {want:?} (distance {})", dl(received, want)),
                ));
            }
            if !got.contains(&format!("`{want}`")) {
                return Err((
                    "wrong-suggestion".into(),
                    format!("did_you_mean({received:?}, {accepted:?}) = {got:?}, expected it to name {want:?} (earliest at minimal distance {})", dl(received, want)),
                ));
            }
            for a in accepted {
                if a != want && !want.contains(a.as_str()) && got.contains(&format!("`{a}`")) {
                    return Err((
                        "names-several".into(),
                        format!("did_you_mean({received:?}, {accepted:?}) = {got:?} also names {a:?}"),
                    ));
                }
            }
        }
    }
    Ok(())
}

fn strings_upto(alphabet: &[char], maxlen: usize) -> Vec<String> {
    let mut out = vec![String::new()];
    let mut layer = vec![String::new()];
    for _ in 0..maxlen {
        let mut next = vec![];
        for s in &layer {
            for &c in alphabet {
                let mut t = s.clone();
                t.push(c);
                next.push(t);
            }
        }
        out.extend(next.iter().cloned());
        layer = next;
    }
    out
}

const THRESHOLDS: &[usize] = &[3, 4, 7, 8, 12, 13, 17, 18, 24, 25];

fn gen_word(rng: &mut impl Rng, target_bytes: usize) -> String {
    let alpha: &[char] = &['a', 'b', 'c', 'd', 'e', 'x', 'y', '_', 'é', '日', 'ß', 'A'];
    let mut s = String::new();
    while s.len() < target_bytes {
        let c = alpha[rng.random_range(0..alpha.len())];
        if s.len() + c.len_utf8() > target_bytes {
            s.push('z');
        } else {
            s.push(c);
        }
    }
    s
}

fn mutate(rng: &mut impl Rng, s: &str, edits: usize) -> String {
    let mut cs: Vec<char> = s.chars().collect();
    let alpha: &[char] = &['a', 'b', 'q', 'é', 'z', '0'];
    for _ in 0..edits {
        match rng.random_range(0..4) {
            0 if !cs.is_empty() => {
                let i = rng.random_range(0..cs.len());
                cs.remove(i);
            }
            1 => {
                let i = rng.random_range(0..=cs.len());
                cs.insert(i, alpha[rng.random_range(0..alpha.len())]);
            }
            2 if !cs.is_empty() => {
                let i = rng.random_range(0..cs.len());
                cs[i] = alpha[rng.random_range(0..alpha.len())];
            }
            _ if cs.len() >= 2 => {
                let i = rng.random_range(0..cs.len() - 1);
                cs.swap(i, i + 1);
            }
            _ => {}
        }
    }
    cs.into_iter().collect()
}

pub fn run(tier: Tier) -> i32 {
    let mut rep = Report::new(
        "C18",
        tier,
        "exhaustive: every (received, single candidate) pair over {a,b,c} up to length 6; random: multi-candidate lists (ties, exact matches, \
         empty list, duplicates) with received strings whose byte length sits on each budget threshold (3/4,7/8,12/13,17/18,24/25), multi-byte included; \
         oracle: independent Lowrance-Wagner Damerau-Levenshtein over chars (cross-checked against BFS over edit operations) + budget from byte length + earliest minimal; \
         non-trivial = minimal distance within +-1 of the budget, or a tie between candidates; distinct by (received, accepted)",
    );
    rep.exhaustive = true;
    // self-test of the oracle: dl == BFS distance on a tiny alphabet
    let small = strings_upto(&['a', 'b'], 4);
    let mut selftest = 0u64;
    for a in &small {
        for b in &small {
            let d = dl(a, b);
            let e = bfs_dist(a, b, &['a', 'b'], 5);
            selftest += 1;
            if d != e {
                eprintln!("harness self-test failed: dl({a:?},{b:?})={d} but BFS={e}");
                return 2;
            }
        }
    }
    rep.extra.insert("oracle_selftest_pairs".into(), json!(selftest));

    let words = strings_upto(&['a', 'b', 'c'], 6);
    let results: Vec<(u64, Vec<u64>, Vec<(String, String, String, String)>)> = std::thread::scope(|s| {
        let chunks: Vec<&[String]> = words.chunks(words.len() / 16 + 1).collect();
        let hs: Vec<_> = chunks
            .into_iter()
            .map(|chunk| {
                let words = &words;
                s.spawn(move || {
                    let mut n = 0u64;
                    let mut nt = vec![];
                    let mut fails = vec![];
                    for r in chunk {
                        for c in words {
                            n += 1;
                            let acc = vec![c.clone()];
                            if let Some(b) = budget(r) {
                                let d = dl(r, c);
                                if d + 1 >= b && d <= b + 1 {
                                    let mut h = std::collections::hash_map::DefaultHasher::new();
                                    std::hash::Hash::hash(&(r, c), &mut h);
                                    nt.push(std::hash::Hasher::finish(&h));
                                }
                            }
                            if let Err((sig, what)) = check(r, &acc) {
                                if fails.len() < 50 {
                                    fails.push((sig, what, r.clone(), c.clone()));
                                }
                            }
                        }
                    }
                    (n, nt, fails)
                })
            })
            .collect();
        hs.into_iter().map(|h| h.join().unwrap()).collect()
    });
    for (n, nt, fails) in results {
        rep.stats.evaluations += n;
        rep.stats.nontrivial.extend(nt);
        *rep.stats.classes.entry("exhaustive single-candidate pairs".into()).or_insert(0) += n;
        for (sig, what, r, c) in fails {
            rep.fail(&sig, json!({"what": what}), json!({"received": r, "accepted": [c]}));
        }
    }
    rep.stats.samples.push(json!({"received": "abca", "accepted": ["abc"], "output": did_you_mean("abca", &["abc"])}));
    rep.stats.samples.push(json!({"received": "abcabc", "accepted": ["acbabc"], "output": did_you_mean("abcabc", &["acbabc"])}));

    // random multi-candidate lists around the thresholds
    let n = tier.pick(200_000u64, 5_000_000u64);
    let workers = crate::common::workers() as u64;
    let seed = rep.seed;
    let outs: Vec<(dv_core::runner::Stats, Vec<(String, String, String, Vec<String>)>)> = std::thread::scope(|s| {
        let hs: Vec<_> = (0..workers)
            .map(|w| {
                s.spawn(move || {
                    let mut rng = rng_for(seed, "C18", w as usize, 0);
                    let mut st = dv_core::runner::Stats::default();
                    let mut fails = vec![];
                    let per = n / workers;
                    for i in 0..per {
                        let t = THRESHOLDS[rng.random_range(0..THRESHOLDS.len())];
                        let target = if rng.random_range(0..10) < 8 { t } else { rng.random_range(0..40) };
                        let received = gen_word(&mut rng, target);
                        let k = match rng.random_range(0..10) {
                            0 => 0,
                            1..=3 => 1,
                            4..=6 => 2,
                            _ => rng.random_range(3..7),
                        };
                        let b = budget(&received).unwrap_or(0);
                        let mut accepted: Vec<String> = vec![];
                        for _ in 0..k {
                            let a = match rng.random_range(0..8) {
                                0 => received.clone(),
                                1 => gen_word(&mut rng, target),
                                2 if !accepted.is_empty() => accepted[rng.random_range(0..accepted.len())].clone(),
                                _ => {
                                    let e = (b + rng.random_range(0..3)).saturating_sub(1);
                                    mutate(&mut rng, &received, e)
                                }
                            };
                            accepted.push(a);
                        }
                        st.evaluations += 1;
                        if let Some(b) = budget(&received) {
                            let ds: Vec<usize> = accepted.iter().map(|a| dl(&received, a)).collect();
                            if let Some(&mn) = ds.iter().min() {
                                let tie = ds.iter().filter(|d| **d == mn).count() > 1;
                                if (mn + 1 >= b && mn <= b + 1) || tie {
                                    st.nontrivial(&(&received, &accepted));
                                    st.class(if tie { "tie at minimal distance" } else { "distance within 1 of budget" });
                                } else {
                                    st.class("far from budget");
                                }
                            } else {
                                st.class("empty accepted list");
                            }
                        } else {
                            st.class("received <= 3 bytes");
                        }
                        if i % (per / 2).max(1) == 0 && w < 3 {
                            let acc: Vec<&str> = accepted.iter().map(|s| s.as_str()).collect();
                            st.samples.push(json!({"received": received, "accepted": accepted, "output": did_you_mean(&received, &acc)}));
                        }
                        if let Err((sig, what)) = check(&received, &accepted) {
                            if fails.iter().all(|f: &(String, String, String, Vec<String>)| f.0 != sig) {
                                // shrink: drop candidates, then characters, keeping the signature
                                let (mut r, mut acc) = (received.clone(), accepted.clone());
                                loop {
                                    let mut changed = false;
                                    for j in 0..acc.len() {
                                        let mut a2 = acc.clone();
                                        a2.remove(j);
                                        if matches!(check(&r, &a2), Err((s2, _)) if s2 == sig) {
                                            acc = a2;
                                            changed = true;
                                            break;
                                        }
                                    }
                                    if changed {
                                        continue;
                                    }
                                    let rc: Vec<char> = r.chars().collect();
                                    for j in 0..rc.len() {
                                        let mut r2 = rc.clone();
                                        r2.remove(j);
                                        let r2: String = r2.into_iter().collect();
                                        if matches!(check(&r2, &acc), Err((s2, _)) if s2 == sig) {
                                            r = r2;
                                            changed = true;
                                            break;
                                        }
                                    }
                                    if !changed {
                                        break;
                                    }
                                }
                                let what = check(&r, &acc).err().map(|e| e.1).unwrap_or(what);
                                fails.push((sig, what, r, acc));
                            }
                        }
                    }
                    (st, fails)
                })
            })
            .collect();
        hs.into_iter().map(|h| h.join().unwrap()).collect()
    });
    for (st, fails) in outs {
        rep.stats.merge(st);
        for (sig, what, r, acc) in fails {
            rep.fail(&sig, json!({"what": what}), json!({"received": r, "accepted": acc}));
        }
    }
    rep.finish()
}

pub fn replay(j: &serde_json::Value) -> i32 {
    let received = j["case"]["received"].as_str().unwrap_or("").to_string();
    let accepted: Vec<String> = j["case"]["accepted"]
        .as_array()
        .map(|a| a.iter().filter_map(|x| x.as_str().map(|s| s.to_string())).collect())
        .unwrap_or_default();
    match check(&received, &accepted) {
        Ok(()) => {
            println!("C18 replay: holds for ({received:?}, {accepted:?})");
            0
        }
        Err((sig, what)) => {
            println!("C18 replay: VIOLATED [{sig}] {what}");
            1
        }
    }
}
