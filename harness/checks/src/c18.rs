//! C18 — did-you-mean suggests only a closest accepted name within the typo budget.

use deserr::errors::helpers::did_you_mean;
use dv_core::evidence::{Report, Tier};
use dv_core::runner::rng_for;
use rand::Rng;
use serde_json::json;

pub use dv_core::dym::{bfs_dist, budget, check, dl, reference};

fn strings_upto(alphabet: &[char], maxlen: usize) -> Vec<String> {
    let mut out = vec![String::new()];
    let mut layer = vec![String::new()];
    for _ in 0..maxlen {
        let mut next = vec![];
        for s in &layer {
            for &c in alphabet {
                let mut t = s.clone();
                t.push(c);
                next.push(t);
            }
        }
        out.extend(next.iter().cloned());
        layer = next;
    }
    out
}

const THRESHOLDS: &[usize] = &[3, 4, 7, 8, 12, 13, 17, 18, 24, 25];

fn gen_word(rng: &mut impl Rng, target_bytes: usize) -> String {
    // (a backtick now and then: the messages quote names in backticks, and code that escapes them must not feed
    // the escaped text to the helper)
    let alpha: &[char] = &['a', 'b', 'c', 'd', 'e', 'x', 'y', '_', 'é', '日', 'ß', 'A', 'a', 'b', 'c', 'd', 'e', 'x', 'y', '_', 'é', '日', 'ß', 'A', '`', '.'];
    let mut s = String::new();
    while s.len() < target_bytes {
        let c = alpha[rng.random_range(0..alpha.len())];
        if s.len() + c.len_utf8() > target_bytes {
            s.push('z');
        } else {
            s.push(c);
        }
    }
    s
}

fn mutate(rng: &mut impl Rng, s: &str, edits: usize) -> String {
    let mut cs: Vec<char> = s.chars().collect();
    let alpha: &[char] = &['a', 'b', 'q', 'é', 'z', '0'];
    for _ in 0..edits {
        match rng.random_range(0..4) {
            0 if !cs.is_empty() => {
                let i = rng.random_range(0..cs.len());
                cs.remove(i);
            }
            1 => {
                let i = rng.random_range(0..=cs.len());
                cs.insert(i, alpha[rng.random_range(0..alpha.len())]);
            }
            2 if !cs.is_empty() => {
                let i = rng.random_range(0..cs.len());
                cs[i] = alpha[rng.random_range(0..alpha.len())];
            }
            _ if cs.len() >= 2 => {
                let i = rng.random_range(0..cs.len() - 1);
                cs.swap(i, i + 1);
            }
            _ => {}
        }
    }
    cs.into_iter().collect()
}

/// the same judgement through the places that USE the helper: the messages JsonError and QueryParamError build
/// for an unknown key and an unknown value (wording-free: every accepted name is quoted once, the due
/// suggestion once more, the received string wherever it equals a name)
pub fn check_call_sites(received: &str, accepted: &[String]) -> Result<(), (String, String)> {
    use deserr::errors::{JsonError, QueryParamError};
    use dv_core::trace::RKind;
    let due: Option<&String> = reference(received, accepted).map(|i| &accepted[i]);
    let kinds = [
        ("unknown-key", RKind::UnknownKey { key: received.to_string(), accepted: accepted.to_vec() }),
        ("unknown-value", RKind::UnknownValue { value: received.to_string(), accepted: accepted.to_vec() }),
    ];
    for (kname, kind) in &kinds {
        let msgs: Vec<(&str, Option<String>)> = vec![
            ("JsonError", std::panic::catch_unwind(|| dv_core::oracles::rerender::<JsonError>(kind, &[]).map(|e| e.to_string())).map_err(|_| ()).ok().flatten()),
            ("QueryParamError", std::panic::catch_unwind(|| dv_core::oracles::rerender::<QueryParamError>(kind, &[]).map(|e| e.to_string())).map_err(|_| ()).ok().flatten()),
        ];
        for (flavour, msg) in msgs {
            let Some(msg) = msg else {
                return Err((format!("call-site|{flavour}|{kname}|panic"), format!("building the {flavour} message for {received:?} / {accepted:?} panicked")));
            };
            for a in accepted {
                if accepted.iter().filter(|x| *x == a).count() > 1 || a.is_empty() {
                    continue;
                }
                // names that contain another quoted name or the received string cannot be counted reliably
                if accepted.iter().any(|b| b != a && b.contains(a.as_str())) || (received != a && received.contains(a.as_str())) {
                    continue;
                }
                let n = msg.matches(&format!("`{a}`")).count();
                let want = 1 + (due == Some(a)) as usize + (received == a) as usize;
                if n != want {
                    let what = if n < want { "suggestion-missing" } else { "spurious-suggestion" };
                    return Err((
                        format!("call-site|{flavour}|{kname}|{what}"),
                        format!("{flavour} message {msg:?} for received {received:?}, accepted {accepted:?} names `{a}` {n} time(s); {want} expected (the suggestion due is {due:?})"),
                    ));
                }
            }
        }
    }
    Ok(())
}

pub fn run(tier: Tier) -> i32 {
    let mut rep = Report::new(
        "C18",
        tier,
        "exhaustive: every (received, single candidate) pair over {a,b,c} up to length 6; random: multi-candidate lists (ties, exact matches, \
         empty list, duplicates) with received strings whose byte length sits on each budget threshold (3/4,7/8,12/13,17/18,24/25), multi-byte included; \
         oracle: independent Lowrance-Wagner Damerau-Levenshtein over chars (cross-checked against BFS over edit operations) + budget from byte length + earliest minimal; \
         non-trivial = minimal distance within +-1 of the budget, or a tie between candidates; distinct by (received, accepted)",
    );
    rep.exhaustive = true;
    // self-test of the oracle: dl == BFS distance on a tiny alphabet
    let small = strings_upto(&['a', 'b'], 4);
    let mut selftest = 0u64;
    for a in &small {
        for b in &small {
            let d = dl(a, b);
            let e = bfs_dist(a, b, &['a', 'b'], 5);
            selftest += 1;
            if d != e {
                eprintln!("harness self-test failed: dl({a:?},{b:?})={d} but BFS={e}");
                return 2;
            }
        }
    }
    rep.extra.insert("oracle_selftest_pairs".into(), json!(selftest));

    let words = strings_upto(&['a', 'b', 'c'], 6);
    let results: Vec<(u64, Vec<u64>, Vec<(String, String, String, String)>)> = std::thread::scope(|s| {
        let chunks: Vec<&[String]> = words.chunks(words.len() / 16 + 1).collect();
        let hs: Vec<_> = chunks
            .into_iter()
            .map(|chunk| {
                let words = &words;
                s.spawn(move || {
                    let mut n = 0u64;
                    let mut nt = vec![];
                    let mut fails = vec![];
                    for r in chunk {
                        for c in words {
                            n += 1;
                            let acc = vec![c.clone()];
                            if let Some(b) = budget(r) {
                                let d = dl(r, c);
                                if d + 1 >= b && d <= b + 1 {
                                    let mut h = std::collections::hash_map::DefaultHasher::new();
                                    std::hash::Hash::hash(&(r, c), &mut h);
                                    nt.push(std::hash::Hasher::finish(&h));
                                }
                            }
                            if let Err((sig, what)) = check(r, &acc) {
                                if fails.len() < 50 {
                                    fails.push((sig, what, r.clone(), c.clone()));
                                }
                            }
                        }
                    }
                    (n, nt, fails)
                })
            })
            .collect();
        hs.into_iter().map(|h| h.join().unwrap()).collect()
    });
    for (n, nt, fails) in results {
        rep.stats.evaluations += n;
        rep.stats.nontrivial.extend(nt);
        *rep.stats.classes.entry("exhaustive single-candidate pairs".into()).or_insert(0) += n;
        for (sig, what, r, c) in fails {
            rep.fail(&sig, json!({"what": what}), json!({"received": r, "accepted": [c]}));
        }
    }
    rep.stats.samples.push(json!({"received": "abca", "accepted": ["abc"], "output": did_you_mean("abca", &["abc"])}));
    rep.stats.samples.push(json!({"received": "abcabc", "accepted": ["acbabc"], "output": did_you_mean("abcabc", &["acbabc"])}));

    // random multi-candidate lists around the thresholds
    let n = tier.pick(200_000u64, 5_000_000u64);
    let workers = crate::common::workers() as u64;
    let seed = rep.seed;
    let outs: Vec<(dv_core::runner::Stats, Vec<(String, String, String, Vec<String>)>)> = std::thread::scope(|s| {
        let hs: Vec<_> = (0..workers)
            .map(|w| {
                s.spawn(move || {
                    let mut rng = rng_for(seed, "C18", w as usize, 0);
                    let mut st = dv_core::runner::Stats::default();
                    let mut fails = vec![];
                    let per = n / workers;
                    for i in 0..per {
                        let t = THRESHOLDS[rng.random_range(0..THRESHOLDS.len())];
                        let target = if rng.random_range(0..10) < 8 { t } else { rng.random_range(0..40) };
                        let received = gen_word(&mut rng, target);
                        let k = match rng.random_range(0..10) {
                            0 => 0,
                            1..=3 => 1,
                            4..=6 => 2,
                            _ => rng.random_range(3..7),
                        };
                        let b = budget(&received).unwrap_or(0);
                        let mut accepted: Vec<String> = vec![];
                        for _ in 0..k {
                            let a = match rng.random_range(0..8) {
                                0 => received.clone(),
                                1 => gen_word(&mut rng, target),
                                2 if !accepted.is_empty() => accepted[rng.random_range(0..accepted.len())].clone(),
                                _ => {
                                    let e = (b + rng.random_range(0..3)).saturating_sub(1);
                                    mutate(&mut rng, &received, e)
                                }
                            };
                            accepted.push(a);
                        }
                        // one case in eight: the received name carries a decoration (array / path suffixes, the short
                        // non-alphanumeric literals of deserr's own sources) that a call site might strip before
                        // asking the helper
                        let received = if rng.random_range(0..8) == 0 {
                            let mut decos: Vec<String> = ["[]", "[0]", ".", "$", " ", "-"].iter().map(|s| s.to_string()).collect();
                            decos.extend(dv_core::genp::dict().strs.iter().filter(|d| !d.is_empty() && d.len() <= 3 && !d.chars().any(|c| c.is_alphanumeric())).take(12).cloned());
                            let d = decos[rng.random_range(0..decos.len())].clone();
                            if rng.random_range(0..3) == 0 { format!("{d}{received}") } else { format!("{received}{d}") }
                        } else {
                            received
                        };
                        st.evaluations += 1;
                        if let Some(b) = budget(&received) {
                            let ds: Vec<usize> = accepted.iter().map(|a| dl(&received, a)).collect();
                            if let Some(&mn) = ds.iter().min() {
                                let tie = ds.iter().filter(|d| **d == mn).count() > 1;
                                if (mn + 1 >= b && mn <= b + 1) || tie {
                                    st.nontrivial(&(&received, &accepted));
                                    st.class(if tie { "tie at minimal distance" } else { "distance within 1 of budget" });
                                } else {
                                    st.class("far from budget");
                                }
                            } else {
                                st.class("empty accepted list");
                            }
                        } else {
                            st.class("received <= 3 bytes");
                        }
                        if i % (per / 2).max(1) == 0 && w < 3 {
                            let acc: Vec<&str> = accepted.iter().map(|s| s.as_str()).collect();
                            st.samples.push(json!({"received": received, "accepted": accepted, "output": did_you_mean(&received, &acc)}));
                        }
                        let verdict = check(&received, &accepted).and_then(|_| if i % 4 == 0 { check_call_sites(&received, &accepted) } else { Ok(()) });
                        if let Err((sig, what)) = verdict {
                            let check = |r: &str, a: &[String]| check(r, a).and_then(|_| check_call_sites(r, a));
                            if fails.iter().all(|f: &(String, String, String, Vec<String>)| f.0 != sig) {
                                // shrink: drop candidates, then characters, keeping the signature
                                let (mut r, mut acc) = (received.clone(), accepted.clone());
                                loop {
                                    let mut changed = false;
                                    for j in 0..acc.len() {
                                        let mut a2 = acc.clone();
                                        a2.remove(j);
                                        if matches!(check(&r, &a2), Err((s2, _)) if s2 == sig) {
                                            acc = a2;
                                            changed = true;
                                            break;
                                        }
                                    }
                                    if changed {
                                        continue;
                                    }
                                    let rc: Vec<char> = r.chars().collect();
                                    for j in 0..rc.len() {
                                        let mut r2 = rc.clone();
                                        r2.remove(j);
                                        let r2: String = r2.into_iter().collect();
                                        if matches!(check(&r2, &acc), Err((s2, _)) if s2 == sig) {
                                            r = r2;
                                            changed = true;
                                            break;
                                        }
                                    }
                                    if !changed {
                                        break;
                                    }
                                }
                                let what = check(&r, &acc).err().map(|e| e.1).unwrap_or(what);
                                fails.push((sig, what, r, acc));
                            }
                        }
                    }
                    (st, fails)
                })
            })
            .collect();
        hs.into_iter().map(|h| h.join().unwrap()).collect()
    });
    for (st, fails) in outs {
        rep.stats.merge(st);
        for (sig, what, r, acc) in fails {
            rep.fail(&sig, json!({"what": what}), json!({"received": r, "accepted": acc}));
        }
    }
    rep.finish()
}

pub fn replay(j: &serde_json::Value) -> i32 {
    let received = j["case"]["received"].as_str().unwrap_or("").to_string();
    let accepted: Vec<String> = j["case"]["accepted"]
        .as_array()
        .map(|a| a.iter().filter_map(|x| x.as_str().map(|s| s.to_string())).collect())
        .unwrap_or_default();
    match check(&received, &accepted).and_then(|_| check_call_sites(&received, &accepted)) {
        Ok(()) => {
            println!("C18 replay: holds for ({received:?}, {accepted:?})");
            0
        }
        Err((sig, what)) => {
            println!("C18 replay: VIOLATED [{sig}] {what}");
            1
        }
    }
}
