//! C04 — every report points at the real culprit: location and payload match the input.

use crate::common::*;
use dv_core::evidence::Tier;
use dv_core::oracles;
use dv_core::pv::Step;
use dv_core::runner::{Case, Stats, Verdict};
use dv_core::trace::Event;
use serde_json::json;

pub fn test(reg: &Reg, case: &Case, stats: Option<&mut Stats>) -> Verdict {
    let e = &reg.entries[case.ty];
    let src = src_for(case);
    let out = oracles::run(e, &case.payload, src, &case.script);
    if let Some(st) = stats {
        st.executions += 1;
        let mut nt = false;
        let mut n = 0;
        for ev in &out.trace {
            if let Event::Report { loc, .. } = ev {
                n += 1;
                let deep = loc.len() >= 2;
                let idx = loc.iter().any(|s| matches!(s, Step::Index(i) if *i >= 1));
                let in_map = loc.iter().any(|s| matches!(s, Step::Key(_)));
                if deep || idx || in_map {
                    nt = true;
                }
                if idx {
                    st.class("report at index >= 1");
                }
                if deep {
                    st.class("report at depth >= 2");
                }
                if loc.is_empty() {
                    st.class("report at root");
                }
            }
        }
        if out.trace.iter().any(|ev| matches!(ev, Event::HandOver { .. })) {
            st.class("has hand-over");
        }
        if nt {
            st.nontrivial(&(case.ty, &case.payload, &case.script.answers, case.script.default));
        }
        if n == 0 {
            st.class("no report");
        }
        st.class(&format!("origin: {}", e.origin));
        if st.want_sample() && n > 0 {
            st.samples.push(sample_json(reg, case, json!({"history": dv_core::trace::show_trace(&out.trace)})));
        }
    }
    match oracles::c04(e, &case.payload, src, &out) {
        Ok(()) => Verdict::Ok,
        Err((sig, what)) => Verdict::Violation(sig, json!({"what": what, "history": dv_core::trace::show_trace(&out.trace)})),
    }
}

pub fn run(tier: Tier) -> i32 {
    let reg = registry();
    let gen = case_gen(
        reg.clone(),
        reg.all(),
        GenOpts { dup_keys: true, nonfinite: true, scripts: ScriptMode::Mixed, blind: 0.05, min_fault: 0.06, ..GenOpts::default() },
    );
    drive(
        "C04",
        tier,
        "cases as C01 with at least a low fault rate, faults placed at every index/key by the type-directed generator; oracle (model-free): every report's location resolves \
         in the payload and its content is true there (actual == value there, missing field absent, unknown key present and not accepted, unknown value == string there); every hand-over \
         location is an ancestor-or-self of all reports handed over and equals the child's own position (producer rule); non-trivial = a report at depth >= 2, at index >= 1 or below a key; \
         distinct by (type, payload, script)",
        (2_400_000, 40_000_000),
        reg,
        gen,
        test,
        &["'missing field is absent' is not evaluated on types whose tag key equals a field key (DESIGN.md §4 rule 8)"],
    )
}
