//! C01 — no reported error is ever lost: Ok only when nothing was reported.

use crate::common::*;
use dv_core::evidence::Tier;
use dv_core::oracles;
use dv_core::runner::{Case, Stats, Verdict};
use dv_core::trace::Event;
use serde_json::json;

pub fn test(reg: &Reg, case: &Case, mut stats: Option<&mut Stats>) -> Verdict {
    let e = &reg.entries[case.ty];
    let src = src_for(case);
    let out = oracles::run(e, &case.payload, src, &case.script);
    if let Some(st) = stats.as_deref_mut() {
        st.executions += 1;
        let reports: Vec<usize> =
            out.trace.iter().filter_map(|ev| if let Event::Report { loc, .. } = ev { Some(loc.len()) } else { None }).collect();
        let nontrivial = reports.len() >= 2 || reports.iter().any(|d| *d >= 2);
        if nontrivial {
            st.nontrivial(&(case.ty, &case.payload, &case.script.answers, case.script.default));
        }
        st.class(match reports.len() {
            0 => "0 reports",
            1 => "1 report",
            2..=3 => "2-3 reports",
            _ => ">=4 reports",
        });
        st.class(if case.script.is_all_continue() {
            "script: all Continue"
        } else if case.script.is_all_break() {
            "script: all Break"
        } else {
            "script: mixed"
        });
        st.class(match src {
            dv_core::entry::Src::Ov => "source: OV",
            dv_core::entry::Src::Json => "source: serde_json",
        });
        if case.payload.has_dup_keys() {
            st.class("duplicate keys");
        }
        st.class(&format!("origin: {}", e.origin));
        if st.want_sample() {
            st.samples.push(sample_json(
                reg,
                case,
                json!({"result": match &out.result { Ok(m) => format!("Ok({})", m.show()), Err(ids) => format!("Err(ids {ids:?})") },
                       "history": dv_core::trace::show_trace(&out.trace)}),
            ));
        }
    }
    if let Err((sig, what)) = oracles::c01(e, &case.payload, &out) {
        return Verdict::Violation(sig, json!({"what": what, "script": case.script.show(), "history": dv_core::trace::show_trace(&out.trace)}));
    }
    // every answer sequence when few decisions are involved (exhaustive over 2^n scripts, n <= 5)
    let n = dv_core::trace::n_decisions(&out.trace);
    if case.aux & 4 == 0 && n >= 2 && n <= 5 {
        if let Some(st) = stats.as_deref_mut() {
            st.executions += 1 << n;
            st.class("all 2^n answer sequences tried");
        }
        for mask in 0u32..(1u32 << n) {
            let sc = dv_core::trace::Script { answers: (0..n).map(|i| mask & (1 << i) == 0).collect(), default: mask & 1 == 0 };
            let o = oracles::run(e, &case.payload, src, &sc);
            if let Err((sig, what)) = oracles::c01(e, &case.payload, &o) {
                return Verdict::Violation(sig, json!({"what": what, "script": sc.show(), "history": dv_core::trace::show_trace(&o.trace)}));
            }
        }
    }
    Verdict::Ok
}

pub fn run(tier: Tier) -> i32 {
    let reg = registry();
    let gen = case_gen(
        reg.clone(),
        reg.all(),
        GenOpts { dup_keys: true, nonfinite: true, scripts: ScriptMode::Mixed, blind: 0.08, ..GenOpts::default() },
    );
    drive(
        "C01",
        tier,
        "cases = (type from the hand-written + generated catalogue, type-directed payload with 0..n injected faults or type-blind payload, \
         source serde_json or OV (duplicate keys / non-finite floats via OV only), answer script: all-Continue / all-Break / Continue^k-then-Break / arbitrary; for half of the cases with 2..5 decisions additionally ALL 2^n answer sequences); \
         oracle on the recorded history: Ok => no report and no hand-over happened; Err(e) => ids(e) == all issued report ids, each once; \
         non-trivial = >= 2 reports in the run or a report at depth >= 2; distinct by (type, payload, script)",
        (2_400_000, 40_000_000),
        reg,
        gen,
        test,
        &["the error type (Rec) keeps every id it is handed and never panics"],
    )
}
