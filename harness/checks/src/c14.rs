//! C14 — built-in error messages name the right place, value and alternatives.

use crate::c18::reference as dym_reference;
use crate::common::*;
use dv_core::entry::Src;
use dv_core::evidence::Tier;
use dv_core::oracles;
use dv_core::pv::{path_str, Path, Step, PV};
use dv_core::rec::ProbeErr;
use dv_core::runner::{Case, Stats, Verdict};
use dv_core::trace::{Event, RKind, Script};
use dv_core::ty::*;
use serde_json::json;

fn plain(s: &str) -> bool {
    !s.is_empty() && s.chars().all(|c| c.is_ascii_alphanumeric() || c == '_')
}

fn all_keys_plain(ty: &Ty, depth: usize) -> bool {
    if depth > 6 {
        return true;
    }
    match ty {
        Ty::Struct(st) => st.fields.iter().all(|f| (f.skip || plain(&f.key)) && all_keys_plain(&f.src, depth + 1)),
        Ty::TaggedEnum(en) => {
            plain(&en.tag)
                && en.variants.iter().all(|v| {
                    plain(&v.key) && v.fields.as_ref().map(|fs| fs.iter().all(|f| (f.skip || plain(&f.key)) && all_keys_plain(&f.src, depth + 1))).unwrap_or(true)
                })
        }
        Ty::UnitEnum(en) => en.variants.iter().all(|(_, k)| plain(k)),
        Ty::Vec(t) | Ty::Array(t, _) | Ty::HashSet(t) | Ty::BTreeSet(t) | Ty::Option(t) | Ty::Boxed(t) => all_keys_plain(t, depth + 1),
        Ty::Map { val, .. } => all_keys_plain(val, depth + 1),
        Ty::Tuple(ts) => ts.iter().all(|t| all_keys_plain(t, depth + 1)),
        Ty::Via(v) => all_keys_plain(&v.inner, depth + 1),
        Ty::Lazy(_) => true,
        _ => true,
    }
}

fn payload_keys_plain(pv: &PV) -> bool {
    match pv {
        PV::Seq(s) => s.iter().all(payload_keys_plain),
        PV::Map(m) => m.iter().all(|(k, v)| plain(k) && payload_keys_plain(v)),
        _ => true,
    }
}

/// the harness' own path renderer
fn render_json(p: &[Step]) -> String {
    p.iter()
        .map(|s| match s {
            Step::Key(k) => format!(".{k}"),
            Step::Index(i) => format!("[{i}]"),
        })
        .collect()
}
fn render_query(p: &[Step]) -> String {
    let s = render_json(p);
    s.strip_prefix('.').map(|x| x.to_string()).unwrap_or(s)
}

fn parse_path(s: &str) -> Option<Path> {
    let cs: Vec<char> = s.chars().collect();
    let mut i = 0;
    let mut out = vec![];
    while i < cs.len() {
        match cs[i] {
            '.' => {
                let mut j = i + 1;
                while j < cs.len() && (cs[j].is_ascii_alphanumeric() || cs[j] == '_') {
                    j += 1;
                }
                if j == i + 1 {
                    return None;
                }
                out.push(Step::Key(cs[i + 1..j].iter().collect()));
                i = j;
            }
            '[' => {
                let mut j = i + 1;
                while j < cs.len() && cs[j].is_ascii_digit() {
                    j += 1;
                }
                if j == i + 1 || j >= cs.len() || cs[j] != ']' {
                    return None;
                }
                out.push(Step::Index(cs[i + 1..j].iter().collect::<String>().parse().ok()?));
                i = j + 1;
            }
            _ => return None,
        }
    }
    Some(out)
}

fn json_text(pv: &PV) -> String {
    serde_json::to_string(&pv.to_json().unwrap()).unwrap()
}

struct Facts {
    /// strings that must occur in the message
    must: Vec<String>,
    /// quoted facts to strip before looking for the path
    strip: Vec<String>,
    suggestion: Option<Option<String>>,
}

fn facts(kind: &RKind, json_flavour: bool) -> Facts {
    let mut f = Facts { must: vec![], strip: vec![], suggestion: None };
    match kind {
        RKind::IncorrectValueKind { actual, .. } => {
            if json_flavour {
                let t = if matches!(actual, PV::Null) { "null".to_string() } else { json_text(actual) };
                f.must.push(t.clone());
                f.strip.push(t);
            } else {
                match actual {
                    PV::Str(s) => {
                        f.must.push(s.clone());
                        f.strip.push(s.clone());
                    }
                    PV::Int(i) => {
                        f.must.push(i.to_string());
                        f.strip.push(i.to_string());
                    }
                    PV::Neg(i) => {
                        f.must.push(i.to_string());
                        f.strip.push(i.to_string());
                    }
                    PV::Bool(b) => {
                        f.must.push(b.to_string());
                        f.strip.push(b.to_string());
                    }
                    PV::Float(x) => f.strip.push(format!("{x}")),
                    _ => {}
                }
            }
        }
        RKind::MissingField { field } => {
            f.must.push(field.clone());
            f.strip.push(field.clone());
        }
        RKind::UnknownKey { key, accepted } | RKind::UnknownValue { value: key, accepted } => {
            f.must.push(key.clone());
            f.strip.push(key.clone());
            for a in accepted {
                f.must.push(format!("`{a}`"));
                f.strip.push(a.clone());
            }
            f.suggestion = Some(dym_reference(key, accepted).map(|i| accepted[i].clone()));
        }
        RKind::BadSequenceLen { actual, expected } => {
            if let PV::Seq(s) = actual {
                f.must.push(s.len().to_string());
            }
            f.must.push(expected.to_string());
            let t = json_text(actual);
            if json_flavour {
                f.must.push(t.clone());
            }
            f.strip.push(t);
        }
        RKind::Unexpected { msg } => {
            f.must.push(msg.clone());
        }
        RKind::Foreign(p) => {
            f.must.push(ProbeErr(p.clone()).to_string());
        }
    }
    f
}

fn check_message(flavour: &str, msg: &str, kind: &RKind, loc: &Path, payload_seen: &PV) -> Result<(), (String, String)> {
    let json_flavour = flavour == "JsonError";
    let fx = facts(kind, json_flavour);
    let cls = kind.class();
    for m in &fx.must {
        if !msg.contains(m.as_str()) {
            return Err((
                format!("C14|{flavour}|fact-missing|{cls}"),
                format!("message {msg:?} does not contain {m:?} (first keep-going report: {} at {})", dv_core::trace::show_kind(kind), path_str(loc)),
            ));
        }
    }
    if let Some(sugg) = &fx.suggestion {
        // wording-free: every accepted alternative is quoted exactly once, the due suggestion once more
        if let RKind::UnknownKey { key: received, accepted } | RKind::UnknownValue { value: received, accepted } = kind {
            let path_txt = if json_flavour { render_json(loc) } else { render_query(loc) };
            for a in accepted {
                if accepted.iter().filter(|x| *x == a).count() > 1 || *a == path_txt {
                    continue;
                }
                // a received string that contains the name (e.g. "x`label") can complete a quoted `label` of its own
                // in the message: occurrences of such names cannot be counted
                if received.contains(a.as_str()) || accepted.iter().any(|b| b != a && b.contains(a.as_str())) {
                    continue;
                }
                let n = msg.matches(&format!("`{a}`")).count();
                let due = sugg.as_deref() == Some(a.as_str());
                if n < 1 + due as usize {
                    return Err((
                        format!("C14|{flavour}|suggestion-missing-or-wrong|{cls}"),
                        format!("message {msg:?} should name `{a}` {} time(s) (it is {}the closest accepted name within the typo budget)", 1 + due as usize, if due { "" } else { "not " }),
                    ));
                }
                if n > 1 + due as usize {
                    return Err((
                        format!("C14|{flavour}|spurious-suggestion|{cls}"),
                        format!("message {msg:?} names `{a}` {n} times although {}", if due { "it should be suggested once" } else { "no suggestion of it is due" }),
                    ));
                }
            }
        }
    }
    // remove the detail message and every quoted fact (exact text); what is left in backticks is the path
    let mut rest = msg.to_string();
    match kind {
        RKind::Unexpected { msg: m } => rest = rest.replacen(m.as_str(), "", 1),
        RKind::Foreign(p) => rest = rest.replacen(&ProbeErr(p.clone()).to_string(), "", 1),
        _ => {}
    }
    let mut strip: Vec<String> = fx.strip.clone();
    if let Some(Some(s)) = &fx.suggestion {
        strip.push(s.clone());
    }
    strip.sort_by_key(|s| std::cmp::Reverse(s.len()));
    for f in &strip {
        // each fact once per occurrence in the message (alternatives may repeat the key)
        while let Some(i) = rest.find(&format!("`{f}`")) {
            rest.replace_range(i..i + f.len() + 2, "<fact>");
        }
    }
    let want = if json_flavour { render_json(loc) } else { render_query(loc) };
    let quoted: Vec<String> = {
        let mut v = vec![];
        let mut it = rest.split('`');
        it.next();
        while let Some(q) = it.next() {
            if it.clone().next().is_none() {
                break; // unbalanced tail
            }
            v.push(q.to_string());
            it.next();
        }
        v
    };
    if loc.is_empty() {
        // nothing path-shaped may be named: every quoted segment must be one of the facts
        for q in &quoted {
            if q.starts_with('.') || q.starts_with('[') || plain(q) {
                return Err((
                    format!("C14|{flavour}|path-at-root|{cls}"),
                    format!("the first keep-going report is at the payload root, but the message {msg:?} names `{q}`"),
                ));
            }
        }
    } else {
        // the path must be quoted in the message - once more than the number of facts that happen to read the same
        let needle = format!("`{want}`");
        let same_as_fact = strip.iter().filter(|f| **f == want).count();
        let occurrences = msg.matches(needle.as_str()).count();
        if occurrences < 1 + same_as_fact {
            return Err((
                format!("C14|{flavour}|path-missing-or-wrong|{cls}"),
                format!("message {msg:?} does not contain the path `{want}` of the first keep-going report ({} at {})", dv_core::trace::show_kind(kind), path_str(loc)),
            ));
        }
        let json_flavour = json_flavour && same_as_fact == 0;
        if json_flavour {
            // read the path back from the message and resolve it in the payload
            let path_txt = quoted.iter().find(|q| q.starts_with('.') || q.starts_with('['));
            if let Some(pt) = path_txt {
                match parse_path(pt) {
                    None => return Err((format!("C14|{flavour}|path-unreadable|{cls}"), format!("cannot read the path `{pt}` back from {msg:?}"))),
                    Some(p) => {
                        let at = payload_seen.resolve_all(&p);
                        if at.is_empty() {
                            return Err((format!("C14|{flavour}|path-does-not-resolve|{cls}"), format!("the path `{pt}` in {msg:?} does not exist in the payload {}", payload_seen.show())));
                        }
                        match kind {
                            RKind::IncorrectValueKind { actual, .. } | RKind::BadSequenceLen { actual, .. } => {
                                let t = json_text(actual);
                                if !at.iter().any(|v| json_text(v) == t) {
                                    return Err((
                                        format!("C14|{flavour}|quoted-value-is-not-at-the-path|{cls}"),
                                        format!("{msg:?}: the value at `{pt}` is {} but the message quotes {t}", json_text(at[0])),
                                    ));
                                }
                            }
                            _ => {}
                        }
                    }
                }
            }
        }
    }
    Ok(())
}

/// the observed first report, with its facts replaced by the reference interpreter's prediction for the same
/// place and the same kind of fault (unchanged when the interpreter predicts no such fault there)
fn from_reference(ty: &Ty, seen: &PV, kind: RKind, loc: &Path) -> RKind {
    use dv_core::interp::PKind;
    let (_, pred) = dv_core::interp::interp(ty, seen);
    let here: Vec<&PKind> = pred.reports.iter().filter(|r| r.loc == *loc).map(|r| &r.kind).collect();
    match &kind {
        RKind::UnknownKey { key, .. } => {
            for p in &here {
                if let PKind::UnknownKey { key: k, accepted } = p {
                    if k == key {
                        return RKind::UnknownKey { key: key.clone(), accepted: accepted.clone() };
                    }
                }
            }
        }
        RKind::UnknownValue { value, .. } => {
            for p in &here {
                if let PKind::UnknownValue { value: v, accepted } = p {
                    if v == value {
                        return RKind::UnknownValue { value: value.clone(), accepted: accepted.clone() };
                    }
                }
            }
        }
        RKind::MissingField { field } => {
            let predicted: Vec<&String> = here.iter().filter_map(|p| if let PKind::MissingField { field } = p { Some(field) } else { None }).collect();
            if !predicted.is_empty() && !predicted.contains(&field) {
                return RKind::MissingField { field: predicted[0].clone() };
            }
        }
        RKind::BadSequenceLen { actual, .. } => {
            for p in &here {
                if let PKind::BadSequenceLen { expected, .. } = p {
                    return RKind::BadSequenceLen { actual: actual.clone(), expected: *expected };
                }
            }
        }
        _ => {}
    }
    kind
}

fn any_key(pv: &PV, f: &dyn Fn(&str) -> bool) -> bool {
    match pv {
        PV::Seq(s) => s.iter().any(|x| any_key(x, f)),
        PV::Map(m) => m.iter().any(|(k, v)| f(k) || any_key(v, f)),
        _ => false,
    }
}

fn relation_only(e: &dv_core::entry::Entry, case: &Case, jf: fn(&PV) -> dv_core::entry::MsgOutcome, qf: fn(&PV) -> dv_core::entry::MsgOutcome, stats: Option<&mut Stats>) -> Verdict {
    if any_key(&case.payload, &|k| k.contains('`')) {
        return Verdict::Ok;
    }
    let inf = oracles::run(e, &case.payload, Src::Json, &Script::all_continue());
    if inf.panicked.is_some() {
        return Verdict::Ok;
    }
    let Some((kind, loc)) = inf.trace.iter().find_map(|ev| if let Event::Report { kind, loc, .. } = ev { Some((kind.clone(), loc.clone())) } else { None }) else {
        return Verdict::Ok;
    };
    if loc.is_empty() || loc.iter().all(|s| matches!(s, Step::Key(k) if plain(k)) || matches!(s, Step::Index(_))) {
        return Verdict::Ok;
    }
    let (Ok(Err(jm)), Ok(Err(qm))) = (jf(&case.payload), qf(&case.payload)) else { return Verdict::Ok };
    let j = render_json(&loc);
    let fx = facts(&kind, true);
    if fx.strip.iter().any(|f| *f == j) || !jm.contains(&format!("`{j}`")) {
        return Verdict::Ok; // another rendering style, or the path text coincides with a quoted fact: not judged
    }
    if let Some(st) = stats {
        st.executions += 3;
        st.class("non-plain keys: query path = JSON path without its leading dot");
        st.nontrivial(&(case.ty, &case.payload));
    }
    let q = render_query(&loc);
    if !qm.contains(&format!("`{q}`")) {
        return Verdict::Violation(
            "C14|QueryParamError|path-is-not-the-json-path-without-its-leading-dot".into(),
            json!({"what": format!("JsonError names the place `{j}`; QueryParamError must name `{q}` (the same without the leading dot) but says {qm:?}"),
                   "json_message": jm, "payload": case.payload.show()}),
        );
    }
    Verdict::Ok
}

pub fn test(reg: &Reg, case: &Case, stats: Option<&mut Stats>) -> Verdict {
    let e = &reg.entries[case.ty];
    if case.payload.has_dup_keys() || case.payload.has_nonfinite() {
        return Verdict::Ok;
    }
    let (Some(jf), Some(qf)) = (e.json_err, e.query_err) else { return Verdict::Ok };
    if !payload_keys_plain(&case.payload) {
        // keys outside [A-Za-z0-9_] (empty, dotted, bracketed, non-ASCII ...): how such keys are rendered is not fixed
        // by the statement, so only the RELATION between the two flavours is judged - "query parameters without the
        // leading dot": where JsonError quotes the path in the plain `.key[i]` style, QueryParamError must quote
        // the same text minus exactly one leading dot
        return relation_only(e, case, jf, qf, stats);
    }
    let inf = oracles::run(e, &case.payload, Src::Json, &Script::all_continue());
    if inf.panicked.is_some() {
        return Verdict::Ok;
    }
    let first = inf.trace.iter().find_map(|ev| if let Event::Report { kind, loc, .. } = ev { Some((kind.clone(), loc.clone())) } else { None });
    let seen = case.payload.canonical().unwrap();
    if let Some(st) = stats {
        st.executions += 3;
        match &first {
            None => st.class("payload does not fail"),
            Some((k, l)) => {
                let alts = match k {
                    RKind::UnknownKey { accepted, .. } | RKind::UnknownValue { accepted, .. } => accepted.len(),
                    _ => 0,
                };
                if l.len() >= 2 || l.is_empty() || alts >= 2 {
                    st.nontrivial(&(case.ty, &case.payload));
                }
                st.class(&format!("first report kind: {}", k.class()));
                st.class(match l.len() {
                    0 => "first report at root",
                    1 => "first report at depth 1",
                    _ => "first report at depth >= 2",
                });
                if matches!(k, RKind::UnknownKey { .. } | RKind::UnknownValue { .. }) {
                    let sug = facts(k, true).suggestion.flatten().is_some();
                    st.class(if sug { "a suggestion is due" } else { "no suggestion is due" });
                }
                if st.want_sample() {
                    st.samples.push(sample_json(
                        reg,
                        case,
                        json!({"first_keep_going_report": format!("{} at {}", dv_core::trace::show_kind(k), path_str(l)),
                               "JsonError": jf(&case.payload).ok().and_then(|r| r.err()), "QueryParamError": qf(&case.payload).ok().and_then(|r| r.err())}),
                    ));
                }
            }
        }
        st.class(&format!("origin: {}", e.origin));
    }
    let Some((kind, loc)) = first else { return Verdict::Ok };
    // what is REALLY accepted / missing / expected there comes from the reference interpreter (where it models the
    // type), not from the report the code under test made: a wrong list of alternatives in the report itself
    // would otherwise be rendered faithfully and pass
    let kind = if reg.modelled[case.ty] { from_reference(&e.ty, &seen, kind, &loc) } else { kind };
    for (flavour, got) in [("JsonError", jf(&case.payload)), ("QueryParamError", qf(&case.payload))] {
        let Ok(Err(msg)) = got else { continue };
        if let Err((sig, what)) = check_message(flavour, &msg, &kind, &loc, &seen) {
            return Verdict::Violation(sig, json!({"what": what, "message": msg, "payload": seen.show()}));
        }
    }
    Verdict::Ok
}

pub fn run(tier: Tier) -> i32 {
    let reg = registry();
    let eligible: Vec<usize> =
        reg.all().into_iter().filter(|i| reg.entries[*i].json_err.is_some() && all_keys_plain(&reg.entries[*i].ty, 0)).collect();
    let gen_plain = case_gen(reg.clone(), eligible.clone(), GenOpts { plain_keys: true, blind: 0.05, min_fault: 0.1, ..GenOpts::default() });
    // one case in ten with arbitrary keys in maps (judged by the relation between the two flavours only)
    let gen_any = case_gen(reg.clone(), eligible, GenOpts { blind: 0.05, min_fault: 0.15, ..GenOpts::default() });
    let gen: dv_core::runner::GenFn = std::sync::Arc::new(move |rng| {
        use rand::Rng;
        if rng.random_range(0..10) == 0 {
            gen_any(rng)
        } else {
            gen_plain(rng)
        }
    });
    drive(
        "C14",
        tier,
        "cases = (catalogue type with a generic impl whose keys are all in [A-Za-z0-9_], failing payload with keys/strings from the same alphabet, faults of every kind at every depth incl. the root); \
         r = first report of the keep-going Rec run on the same source; oracle: the JsonError / QueryParamError message contains the path of r rendered by the harness' own renderer (`.k`, `[i]`; query form without the leading dot) in backticks, \
         and no path-shaped segment when r is at the root; per kind: JSON text of the offending value (JsonError) / its plain rendering (query), the missing field, the unknown key/value with every accepted alternative, 'did you mean' with the reference (C18) suggestion iff one is due, both lengths, or r's detail message; \
         JsonError: the path read back from the message resolves in the payload to the value the message quotes; non-trivial = r at depth >= 2, at the root, or UnknownKey/UnknownValue with >= 2 alternatives; distinct by (type, payload)",
        (1_200_000, 20_000_000),
        reg,
        gen,
        test,
        &["facts are checked by containment, never by whole-message equality", "keys are restricted to [A-Za-z0-9_] so that the rendered path can be read back unambiguously"],
    )
}
