//! C19 — value pointers faithfully record the path that was pushed.

use deserr::ValuePointerRef;
use dv_core::evidence::{Report, Tier};
use dv_core::pv::Step;
use dv_core::runner::rng_for;
use rand::Rng;
use serde_json::json;

/// observation of a location through the public API
#[derive(Debug, PartialEq, Clone)]
struct Obs {
    /// the owned path, one entry per component, in the derived Debug form `Key("..")` / `Index(n)`
    /// (the component type is public but not nameable from outside the crate; its derived Debug
    /// output is injective, so comparing Debug strings compares values)
    path: Vec<String>,
    is_origin: bool,
    first: Option<String>,
    last: Option<String>,
}

fn observe(l: ValuePointerRef) -> Obs {
    let owned = l.to_owned();
    Obs {
        path: owned.path.iter().map(|c| format!("{c:?}")).collect(),
        is_origin: l.is_origin(),
        first: l.first_field().map(|s| s.to_string()),
        last: l.last_field().map(|s| s.to_string()),
    }
}

fn expected(steps: &[Step]) -> Obs {
    let keys: Vec<&String> = steps.iter().filter_map(|s| if let Step::Key(k) = s { Some(k) } else { None }).collect();
    Obs {
        path: steps
            .iter()
            .map(|s| match s {
                Step::Key(k) => format!("Key({k:?})"),
                Step::Index(i) => format!("Index({i})"),
            })
            .collect(),
        is_origin: steps.is_empty(),
        first: keys.first().map(|s| s.to_string()),
        last: keys.last().map(|s| s.to_string()),
    }
}

/// build the location by recursion (the borrowed linked list needs it) and observe it
fn build_and_observe(steps: &[Step]) -> Result<Obs, String> {
    fn rec(rest: &[Step], loc: ValuePointerRef) -> Obs {
        match rest.first() {
            None => observe(loc),
            Some(Step::Key(k)) => rec(&rest[1..], loc.push_key(k)),
            Some(Step::Index(i)) => rec(&rest[1..], loc.push_index(*i)),
        }
    }
    let steps2 = steps.to_vec();
    std::panic::catch_unwind(move || rec(&steps2, ValuePointerRef::Origin)).map_err(dv_core::entry::panic_msg)
}

fn check(steps: &[Step]) -> Result<(), (String, String)> {
    let got = build_and_observe(steps).map_err(|p| ("panic".to_string(), format!("panicked: {p}")))?;
    let want = expected(steps);
    if got.path != want.path {
        return Err(("owned-path-differs".into(), format!("pushed {:?}, to_owned().path = {:?}", steps, got.path)));
    }
    if got.is_origin != want.is_origin {
        return Err(("is_origin-wrong".into(), format!("pushed {:?}, is_origin() = {}", steps, got.is_origin)));
    }
    if got.first != want.first {
        return Err(("first_field-wrong".into(), format!("pushed {:?}, first_field() = {:?}, expected {:?}", steps, got.first, want.first)));
    }
    if got.last != want.last {
        return Err(("last_field-wrong".into(), format!("pushed {:?}, last_field() = {:?}, expected {:?}", steps, got.last, want.last)));
    }
    Ok(())
}

fn steps_json(steps: &[Step]) -> serde_json::Value {
    json!(steps
        .iter()
        .map(|s| match s {
            Step::Key(k) => json!({"key": k}),
            Step::Index(i) => json!({"index": i.to_string()}),
        })
        .collect::<Vec<_>>())
}

fn enumerate(alpha: &[Step], maxlen: usize, rep: &mut Report) {
    let mut stack: Vec<Vec<Step>> = vec![vec![]];
    while let Some(p) = stack.pop() {
        rep.stats.evaluations += 1;
        let has_k = p.iter().any(|s| matches!(s, Step::Key(_)));
        let has_i = p.iter().any(|s| matches!(s, Step::Index(_)));
        if p.len() >= 2 && has_k && has_i {
            rep.stats.nontrivial(&p);
            rep.stats.class("mixed key/index path");
        } else {
            rep.stats.class("single-kind or short path");
        }
        if rep.stats.evaluations % 997 == 0 && rep.stats.samples.len() < 8 {
            rep.stats.samples.push(json!({"pushed": steps_json(&p), "observed": format!("{:?}", build_and_observe(&p))}));
        }
        if let Err((sig, what)) = check(&p) {
            rep.fail(&sig, json!({"what": what}), json!({"steps": steps_json(&p)}));
        }
        if p.len() < maxlen {
            for s in alpha {
                let mut q = p.clone();
                q.push(s.clone());
                stack.push(q);
            }
        }
    }
}

pub fn run(tier: Tier) -> i32 {
    let mut rep = Report::new(
        "C19",
        tier,
        "exhaustive: all paths of <= 6 steps over {2 keys, 2 indices} and <= 4 steps over {4 keys incl. empty, non-ASCII and the digit key \"0\", 3 indices incl. 0 and usize::MAX}; \
         random paths up to 200 steps; oracle: to_owned().path == pushed steps, is_origin <=> empty, first_field/last_field == first/last key step; \
         non-trivial = >= 2 steps with both step kinds; distinct by path",
    );
    rep.exhaustive = true;
    let a1 = vec![Step::Key("a".into()), Step::Key("b".into()), Step::Index(0), Step::Index(1)];
    enumerate(&a1, 6, &mut rep);
    let a2 = vec![
        Step::Key("".into()),
        Step::Key("k".into()),
        Step::Key("日本 é".into()),
        Step::Key("0".into()),
        Step::Index(0),
        Step::Index(7),
        Step::Index(usize::MAX),
    ];
    enumerate(&a2, 4, &mut rep);
    let n = tier.pick(20_000, 1_000_000);
    let mut rng = rng_for(rep.seed, "C19", 0, 0);
    // (keys that look like indices or numbers must stay keys)
    let keys = ["", "a", "toto", "tata", "lol", "x.y", "[0]", "日本", "a b", "`", "0", "1", "42", "007", "+5", "-1", "18446744073709551615", "1e3", " 7", "0x10"];
    for i in 0..n {
        let len = if rng.random_range(0..10) == 0 { rng.random_range(0..200) } else { rng.random_range(0..12) };
        // bias: sometimes no key at all, sometimes keys only
        let mode = rng.random_range(0..6);
        let p: Vec<Step> = (0..len)
            .map(|_| {
                let key = match mode {
                    0 => false,
                    1 => true,
                    _ => rng.random_range(0..2) == 0,
                };
                if key {
                    Step::Key(keys[rng.random_range(0..keys.len())].to_string())
                } else {
                    Step::Index(if rng.random_range(0..8) == 0 { usize::MAX } else { rng.random_range(0..1000) })
                }
            })
            .collect();
        rep.stats.evaluations += 1;
        let has_k = p.iter().any(|s| matches!(s, Step::Key(_)));
        let has_i = p.iter().any(|s| matches!(s, Step::Index(_)));
        if p.len() >= 2 && has_k && has_i {
            rep.stats.nontrivial(&p);
        }
        rep.stats.class("random path");
        if i % (n / 2).max(1) == 1 {
            rep.stats.samples.push(json!({"pushed": steps_json(&p)}));
        }
        if let Err((sig, _)) = check(&p) {
            // shrink: drop steps while the same signature fails
            let mut cur = p.clone();
            loop {
                let mut changed = false;
                for j in 0..cur.len() {
                    let mut c2 = cur.clone();
                    c2.remove(j);
                    if matches!(check(&c2), Err((s2, _)) if s2 == sig) {
                        cur = c2;
                        changed = true;
                        break;
                    }
                }
                if !changed {
                    break;
                }
            }
            let what = check(&cur).err().map(|e| e.1).unwrap_or_default();
            rep.fail(&sig, json!({"what": what}), json!({"steps": steps_json(&cur)}));
        }
    }
    rep.finish()
}

pub fn replay(j: &serde_json::Value) -> i32 {
    let steps: Vec<Step> = j["case"]["steps"]
        .as_array()
        .map(|a| {
            a.iter()
                .map(|s| {
                    if let Some(k) = s.get("key") {
                        Step::Key(k.as_str().unwrap_or("").to_string())
                    } else {
                        Step::Index(s["index"].as_str().and_then(|x| x.parse().ok()).unwrap_or(0))
                    }
                })
                .collect()
        })
        .unwrap_or_default();
    match check(&steps) {
        Ok(()) => {
            println!("C19 replay: holds for {steps:?}");
            0
        }
        Err((sig, what)) => {
            println!("C19 replay: VIOLATED [{sig}] {what}");
            1
        }
    }
}
