//! Shared helpers of the checks: registry, case generators, the driver, replay.

use dv_core::entry::{Entry, Src};
use dv_core::evidence::{open_known, Report, Tier};
use dv_core::genp::{Gen, GenCfg};
use dv_core::pv::PV;
use dv_core::runner::{run_cases, Case, Failure, GenFn, Stats, Verdict};
use dv_core::trace::Script;
use rand::Rng;
use serde_json::{json, Value as J};
use std::sync::Arc;

pub fn workers() -> usize {
    std::env::var("VERIF_WORKERS").ok().and_then(|s| s.parse().ok()).unwrap_or(16)
}

pub struct Reg {
    pub entries: Vec<Entry>,
    /// the reference interpreter models this entry completely
    pub modelled: Vec<bool>,
}

impl Reg {
    pub fn find(&self, name: &str) -> Option<usize> {
        self.entries.iter().position(|e| e.name == name)
    }
    pub fn all(&self) -> Vec<usize> {
        (0..self.entries.len()).collect()
    }
    pub fn modelled_idx(&self) -> Vec<usize> {
        (0..self.entries.len()).filter(|i| self.modelled[*i]).collect()
    }
}

pub fn registry() -> Arc<Reg> {
    let mut entries = vec![];
    let mut modelled = vec![];
    for (e, m) in dv_core::catalogue::all_hand() {
        entries.push(e);
        modelled.push(m);
    }
    for e in dv_generated::entries() {
        entries.push(e);
        modelled.push(true);
    }
    // the frozen program set (does not change with the seed or the generator): keeps saved cases replayable
    for e in dv_frozen::entries() {
        entries.push(e);
        modelled.push(true);
    }
    Arc::new(Reg { entries, modelled })
}

#[derive(Clone, Debug)]
pub enum ScriptMode {
    AllContinue,
    /// all-Continue, all-Break, Continue×k-then-Break, arbitrary
    Mixed,
}

#[derive(Clone, Debug)]
pub struct GenOpts {
    pub dup_keys: bool,
    pub nonfinite: bool,
    pub plain_text: bool,
    pub plain_keys: bool,
    pub alt_key_spellings: bool,
    pub scripts: ScriptMode,
    /// fraction of type-blind payloads
    pub blind: f64,
    /// fraction of pathological (very deep / very wide) payloads
    pub deep: f64,
    /// force at least this fault level (0 = draw zero-fault cases too)
    pub min_fault: f64,
}

impl Default for GenOpts {
    fn default() -> Self {
        GenOpts {
            dup_keys: false,
            nonfinite: false,
            plain_text: false,
            plain_keys: false,
            alt_key_spellings: false,
            scripts: ScriptMode::AllContinue,
            blind: 0.05,
            deep: 0.0,
            min_fault: 0.0,
        }
    }
}

pub fn gen_script(rng: &mut proptest::test_runner::TestRng, mode: &ScriptMode) -> Script {
    match mode {
        ScriptMode::AllContinue => Script::all_continue(),
        ScriptMode::Mixed => match rng.random_range(0..10) {
            0 | 1 => Script::all_continue(),
            2 => Script::all_break(),
            3..=5 => Script::break_at(rng.random_range(0..8)),
            _ => {
                let n = rng.random_range(0..12);
                Script { answers: (0..n).map(|_| rng.random_range(0..4) != 0).collect(), default: rng.random_range(0..3) != 0 }
            }
        },
    }
}

pub fn nest(depth: usize, leaf: PV, map: bool) -> PV {
    let mut v = leaf;
    for i in 0..depth {
        v = if map && i % 2 == 0 { PV::Map(vec![("children".to_string(), v)]) } else { PV::Seq(vec![v]) };
    }
    v
}

pub fn case_gen(reg: Arc<Reg>, eligible: Vec<usize>, opts: GenOpts) -> GenFn {
    assert!(!eligible.is_empty(), "no eligible type");
    // scalars are cheap to cover: weight containers and derived types higher
    let mut weighted: Vec<usize> = vec![];
    for i in &eligible {
        let e = &reg.entries[*i];
        let w = if e.origin == "frozen" {
            3
        } else if e.origin == "gen" || e.origin == "hand" {
            8
        } else if matches!(
            e.ty,
            dv_core::ty::Ty::Unit | dv_core::ty::Ty::Bool | dv_core::ty::Ty::Char | dv_core::ty::Ty::Str | dv_core::ty::Ty::Int(_) | dv_core::ty::Ty::F32 | dv_core::ty::Ty::F64
        ) {
            1
        } else {
            4
        };
        for _ in 0..w {
            weighted.push(*i);
        }
    }
    let eligible = weighted;
    Arc::new(move |rng| {
        let ti = eligible[rng.random_range(0..eligible.len())];
        let fault = match rng.random_range(0..20) {
            0..=4 => 0.0,
            5..=11 => 0.06,
            12..=17 => 0.2,
            _ => 0.5,
        };
        let fault = f64::max(fault, opts.min_fault);
        let cfg = GenCfg {
            fault,
            dup_keys: opts.dup_keys && rng.random_range(0..3) == 0,
            nonfinite: opts.nonfinite && rng.random_range(0..3) == 0,
            plain_text: opts.plain_text,
            plain_keys: opts.plain_keys,
            alt_key_spellings: opts.alt_key_spellings,
            ..GenCfg::default()
        };
        // deep but thin payloads for recursive target types (locations with dozens of components)
        let cfg = if rng.random_range(0..40) == 0 { GenCfg { max_depth: [12, 25, 60][rng.random_range(0..3)], thin_from: 3, ..cfg } } else { cfg };
        let r: f64 = rng.random_range(0.0..1.0);
        let mut g = Gen::new(rng, cfg);
        let payload = if r < opts.deep {
            let d = [16, 40, 100, 128][g.below(4)];
            let leaf = g.blind(3);
            let map = g.chance(0.5);
            nest(d, leaf, map)
        } else if r < opts.deep + opts.blind {
            g.blind(0)
        } else {
            g.typed(&reg.entries[ti].ty, 0)
        };
        let faults = g.faults;
        let script = gen_script(rng, &opts.scripts);
        Case { ty: ti, payload, script, aux: rng.random::<u64>(), faults }
    })
}

/// now and then one member of one object of the payload is repeated verbatim (a value source that keeps
/// duplicate keys): loops that count matched keys, stop early or special-case a second occurrence see it
pub fn with_repeated_member(gen: GenFn) -> GenFn {
    Arc::new(move |rng| {
        let mut c = gen(rng);
        if rng.random_range(0..12) == 0 {
            let n = c.payload.count_objects();
            if n > 0 && c.payload.size() < 400 {
                let times = 1 + (rng.random_range(0..4) == 0) as usize;
                for _ in 0..times {
                    let (which, member, at) = (rng.random_range(0..n), rng.random_range(0..64usize), rng.random_range(0..64usize));
                    c.payload = c.payload.with_cloned_member(which, member, at);
                }
            }
        }
        c
    })
}

pub fn src_for(case: &Case) -> Src {
    if case.payload.has_dup_keys() || case.payload.has_nonfinite() || case.aux & 1 == 0 {
        Src::Ov
    } else {
        Src::Json
    }
}

pub fn case_json(reg: &Reg, c: &Case) -> J {
    let e = &reg.entries[c.ty];
    json!({
        "type": e.name,
        "type_source": e.source,
        "origin": e.origin,
        "payload": c.payload.encode(),
        "payload_shown": c.payload.show(),
        "script": c.script.show(),
        "aux": c.aux.to_string(),
        "source": format!("{:?}", src_for(c)),
    })
}

pub fn sample_json(reg: &Reg, c: &Case, note: J) -> J {
    let e = &reg.entries[c.ty];
    json!({"type": e.name, "payload": c.payload.show(), "script": c.script.show(), "source": format!("{:?}", src_for(c)), "observed": note})
}

pub fn parse_script(s: &str) -> Script {
    let s = s.trim_end_matches('*');
    let cs: Vec<char> = s.chars().collect();
    let (body, def) = cs.split_at(cs.len().saturating_sub(1));
    Script { answers: body.iter().map(|c| *c == 'C').collect(), default: def.first().map(|c| *c == 'C').unwrap_or(true) }
}

pub fn case_from_json(reg: &Reg, j: &J) -> Result<Case, String> {
    let name = j["type"].as_str().ok_or("no type")?;
    let ty = reg.find(name).ok_or_else(|| format!("type {name} not in the registry (program seed mismatch?)"))?;
    Ok(Case {
        ty,
        payload: PV::decode(&j["payload"])?,
        script: parse_script(j["script"].as_str().unwrap_or("C*")),
        aux: j["aux"].as_str().and_then(|s| s.parse().ok()).unwrap_or(0),
        faults: 0,
    })
}

pub type TestFn = fn(&Reg, &Case, Option<&mut Stats>) -> Verdict;

/// generic driver: generated cases through proptest, known-finding exclusion, evidence
pub fn drive(
    prop: &'static str,
    tier: Tier,
    rule: &str,
    cases: (u32, u32),
    reg: Arc<Reg>,
    gen: GenFn,
    test: TestFn,
    assumptions: &[&str],
) -> i32 {
    let mut rep = Report::new(prop, tier, rule);
    rep.assumptions = assumptions.iter().map(|s| s.to_string()).collect();
    let known = open_known(prop);
    let w = workers();
    let (round, rounds) = dv_core::evidence::round();
    let per_worker = tier.pick(cases.0, cases.1) / w as u32 / rounds as u32;
    let reg2 = reg.clone();
    let out = run_cases(prop, rep.seed.wrapping_add(round.wrapping_mul(0x9E37_79B9)), w, per_worker, gen, move |case, stats| match test(&reg2, case, stats) {
        Verdict::Violation(sig, d) if known.contains_key(&sig) => {
            let _ = d;
            Verdict::Known(sig)
        }
        v => v,
    });
    rep.stats = out.stats;
    rep.extra.insert("types_in_registry".into(), json!(reg.entries.len()));
    rep.extra.insert("generated_types".into(), json!(reg.entries.iter().filter(|e| e.origin == "gen").count()));
    rep.extra.insert("program_seed".into(), json!(dv_generated::PROGRAM_SEED));
    let reg3 = reg.clone();
    let fs: Vec<Failure> = out.failures;
    for f in fs {
        let mut cj = case_json(&reg3, &f.case);
        cj["program_seed"] = json!(dv_generated::PROGRAM_SEED);
        rep.failures.push((f.signature.clone(), f.details.clone(), Some(cj)));
    }
    finish_with_seed(rep)
}

pub fn finish_with_seed(rep: Report) -> i32 {
    rep.finish()
}

pub fn replay(path: &str) -> i32 {
    let Ok(s) = std::fs::read_to_string(path) else {
        eprintln!("cannot read {path}");
        return 2;
    };
    let Ok(j) = serde_json::from_str::<J>(&s) else {
        eprintln!("replay file is not JSON");
        return 2;
    };
    let prop = j["property"].as_str().unwrap_or("").to_string();
    match prop.as_str() {
        "C17" => return crate::c17::replay(&j),
        "C18" => return crate::c18::replay(&j),
        "C19" => return crate::c19::replay(&j),
        "C13" => return crate::c13::replay(&j),
        "C16" => return crate::c16::replay(&j),
        _ => {}
    }
    let test: TestFn = match prop.as_str() {
        "C01" => crate::c01::test,
        "C02" => crate::c02::test,
        "C03" => crate::c03::test,
        "C04" => crate::c04::test,
        "C05" => crate::c05::test,
        "C06" => crate::derived::test_c06,
        "C07" => crate::derived::test_c07,
        "C08" => crate::derived::test_c08,
        "C09" => crate::derived::test_c09,
        "C10" => crate::derived::test_c10,
        "C11" => crate::derived::test_c11,
        "C12" => crate::c12::test,
        "C14" => crate::c14::test,
        "C15" => crate::c15::test,
        _ => {
            eprintln!("no replay handler for property {prop:?}");
            return 2;
        }
    };
    let reg = registry();
    let case = match case_from_json(&reg, &j["case"]) {
        Ok(c) => c,
        Err(e) => {
            eprintln!("cannot decode the case: {e}");
            return 2;
        }
    };
    match test(&reg, &case, None) {
        Verdict::Ok => {
            println!("{prop} replay: the property holds on this case");
            0
        }
        Verdict::Known(sig) => {
            println!("{prop} replay: known finding {sig}");
            0
        }
        Verdict::Violation(sig, d) => {
            println!("{prop} replay: VIOLATED [{sig}] {}", serde_json::to_string(&d).unwrap_or_default());
            1
        }
    }
}

/// Replay tier: every saved case under replays/regressions and replays/found-before-fix that belongs to
/// `prop` is re-run first, without any generator.  Returns (ran, skipped, violated files).
pub fn regression_tier(prop: &str, include_slow: bool) -> (usize, usize, Vec<String>) {
    let dir = dv_core::evidence::verif_dir().join("replays");
    let mut files: Vec<std::path::PathBuf> = vec![];
    for sub in ["regressions", "found-before-fix"] {
        if let Ok(rd) = std::fs::read_dir(dir.join(sub)) {
            for e in rd.flatten() {
                let n = e.file_name().to_string_lossy().to_string();
                if n.starts_with(&format!("{prop}-")) && n.ends_with(".json") {
                    files.push(e.path());
                }
            }
        }
    }
    files.sort();
    if prop == "C16" && !include_slow {
        return (0, files.len(), vec![]);
    }
    let reg = if files.is_empty() { None } else { Some(registry()) };
    let (mut ran, mut skipped, mut bad) = (0, 0, vec![]);
    for f in files {
        let Ok(s) = std::fs::read_to_string(&f) else { continue };
        let Ok(j) = serde_json::from_str::<J>(&s) else { continue };
        // cases over generated types are only meaningful for the very same program text
        if matches!(j["case"]["origin"].as_str(), Some("gen") | Some("frozen")) {
            let same = reg
                .as_ref()
                .and_then(|r| r.find(j["case"]["type"].as_str().unwrap_or("")).map(|i| r.entries[i].source == j["case"]["type_source"].as_str().unwrap_or("")))
                .unwrap_or(false);
            if !same {
                skipped += 1;
                continue;
            }
        }
        let code = replay_quiet(&f.to_string_lossy());
        match code {
            0 => ran += 1,
            1 => {
                ran += 1;
                println!("VIOLATION property={prop} replay={}", f.display());
                println!("  signature: regression-replay|{}", j["signature"].as_str().unwrap_or("?"));
                bad.push(f.display().to_string());
            }
            _ => skipped += 1,
        }
    }
    (ran, skipped, bad)
}

/// like `replay` but silent on success / undecodable cases
pub fn replay_quiet(path: &str) -> i32 {
    let Ok(s) = std::fs::read_to_string(path) else { return 2 };
    let Ok(j) = serde_json::from_str::<J>(&s) else { return 2 };
    let prop = j["property"].as_str().unwrap_or("").to_string();
    match prop.as_str() {
        "C13" | "C16" | "C17" | "C18" | "C19" => return replay(path),
        _ => {}
    }
    let reg = registry();
    let Some(test) = test_fn(&prop) else { return 2 };
    let Ok(case) = case_from_json(&reg, &j["case"]) else { return 2 };
    match test(&reg, &case, None) {
        Verdict::Violation(..) => 1,
        _ => 0,
    }
}

pub fn test_fn(prop: &str) -> Option<TestFn> {
    Some(match prop {
        "C01" => crate::c01::test,
        "C02" => crate::c02::test,
        "C03" => crate::c03::test,
        "C04" => crate::c04::test,
        "C05" => crate::c05::test,
        "C06" => crate::derived::test_c06,
        "C07" => crate::derived::test_c07,
        "C08" => crate::derived::test_c08,
        "C09" => crate::derived::test_c09,
        "C10" => crate::derived::test_c10,
        "C11" => crate::derived::test_c11,
        "C12" => crate::c12::test,
        "C14" => crate::c14::test,
        "C15" => crate::c15::test,
        _ => return None,
    })
}
