//! Shared helpers of the checks.

pub fn workers() -> usize {
    std::env::var("VERIF_WORKERS").ok().and_then(|s| s.parse().ok()).unwrap_or(16)
}

pub fn replay(path: &str) -> i32 {
    let Ok(s) = std::fs::read_to_string(path) else {
        eprintln!("cannot read {path}");
        return 2;
    };
    let Ok(j) = serde_json::from_str::<serde_json::Value>(&s) else {
        eprintln!("replay file is not JSON");
        return 2;
    };
    let prop = j["property"].as_str().unwrap_or("");
    match prop {
        "C17" => crate::c17::replay(&j),
        "C18" => crate::c18::replay(&j),
        "C19" => crate::c19::replay(&j),
        _ => {
            eprintln!("no replay handler for property {prop:?}");
            2
        }
    }
}
