//! C02 — keep-going error types receive every independent fault exactly once.

use crate::common::*;
use dv_core::compare::compare;
use dv_core::evidence::Tier;
use dv_core::oracles::ctor_at;
use dv_core::runner::{Case, Stats, Verdict};
use serde_json::json;
use std::collections::BTreeSet;

pub fn test(reg: &Reg, case: &Case, stats: Option<&mut Stats>) -> Verdict {
    let e = &reg.entries[case.ty];
    // duplicate keys (only the order-preserving second value source can carry them): every occurrence is a map
    // entry of the payload and must be examined and reported like any other; the interpreter processes them in order
    let src = src_for(case);
    let c = compare(e, &case.payload, src);
    if c.out.panicked.is_some() {
        return Verdict::Ok;
    }
    if let Some(st) = stats {
        st.executions += 1;
        let locs: BTreeSet<_> = c.pred.reports.iter().map(|r| r.loc.clone()).collect();
        let structural = c.pred.reports.iter().any(|r| r.structural);
        if (c.pred.reports.len() >= 2 && locs.len() >= 2) || (structural && c.pred.reports.len() >= 2) {
            st.nontrivial(&(case.ty, &case.payload));
        }
        st.class(match c.pred.reports.len() {
            0 => "0 predicted reports",
            1 => "1 predicted report",
            2..=3 => "2-3 predicted reports",
            _ => ">=4 predicted reports",
        });
        if structural {
            st.class("has structural fault");
        }
        for r in &c.pred.reports {
            st.class(&format!("kind: {}", r.kind.class()));
        }
        st.class(&format!("origin: {}", e.origin));
        if st.want_sample() && !c.pred.reports.is_empty() {
            st.samples.push(sample_json(
                reg,
                case,
                json!({"predicted_reports": c.pred.reports.iter().map(|p| format!("{:?} at {}", p.kind, dv_core::pv::path_str(&p.loc))).collect::<Vec<_>>(),
                       "history": dv_core::trace::show_trace(&c.out.trace)}),
            ));
        }
    }
    if let Err(why) = &c.reports {
        // signature: which kind of report is missing/extra, and in which container
        let first_loc = c.pred.reports.first().map(|r| r.loc.clone()).unwrap_or_default();
        let more = c.pred.reports.len() < dv_core::trace::reports(&c.out.trace).len();
        let sig = format!(
            "C02|reports-differ|{}|root={}|at={}",
            if more { "more-than-predicted" } else { "fewer-or-different" },
            e.ty.ctor(),
            ctor_at(&e.ty, &first_loc, &c.seen)
        );
        return Verdict::Violation(sig, json!({"what": why, "history": dv_core::trace::show_trace(&c.out.trace)}));
    }
    if let Err(why) = &c.final_reports {
        let sig = format!("C02|final-error-differs|root={}", e.ty.ctor());
        return Verdict::Violation(sig, json!({"what": why, "history": dv_core::trace::show_trace(&c.out.trace)}));
    }
    if let Err(why) = &c.visits {
        if why.starts_with("not-examined") {
            return Verdict::Violation(format!("C02|not-examined|root={}", e.ty.ctor()), json!({"what": why, "history": dv_core::trace::show_trace(&c.out.trace)}));
        }
    }
    Verdict::Ok
}

pub fn run(tier: Tier) -> i32 {
    let reg = registry();
    let gen = case_gen(reg.clone(), reg.modelled_idx(), GenOpts { blind: 0.04, min_fault: 0.06, nonfinite: true, dup_keys: true, alt_key_spellings: true, ..GenOpts::default() });
    drive(
        "C02",
        tier,
        "cases = (modelled catalogue type incl. generated derive inputs, type-directed payload biased to >= 2 faults placed before/after/inside each other, no duplicate keys, both sources; non-finite floats through OV), all-Continue script; \
         oracle: multiset of observed reports (kind, location, structured content / message matcher) == multiset predicted by the reference interpreter of the documented semantics, the reports held by the RETURNED error (by id) are the same multiset, and every payload node the interpreter says must be examined was examined (OV); \
         non-trivial = >= 2 predicted reports at >= 2 locations, or a structural fault next to other faults; distinct by (type, payload)",
        (2_000_000, 30_000_000),
        reg,
        gen,
        test,
        &["the reference interpreter transcribes DESIGN.md Appendix A; free-text messages are matched by containment of the facts the properties name"],
    )
}
