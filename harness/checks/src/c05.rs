//! C05 — scalars accept exactly the representable values, exactly, and say why not.

use crate::common::*;
use dv_core::compare::compare;
use dv_core::entry::Src;
use dv_core::evidence::{open_known, Report, Tier};
use dv_core::genp::{Gen, GenCfg};
use dv_core::pv::{Kind, PV};
use dv_core::runner::{run_cases, Case, Stats, Verdict};
use dv_core::trace::Script;
use dv_core::ty::Ty;
use rand::Rng;
use serde_json::json;
use std::sync::Arc;

fn near_bound(ty: &Ty, pv: &PV) -> bool {
    let v: i128 = match pv {
        PV::Int(i) => *i as i128,
        PV::Neg(i) => *i as i128,
        _ => return false,
    };
    match ty {
        Ty::Int(it) => {
            v.checked_sub(it.min).map(|d| d.unsigned_abs() <= 2).unwrap_or(false) || (it.max <= i128::MAX as u128 && v.checked_sub(it.max as i128).map(|d| d.unsigned_abs() <= 2).unwrap_or(false)) || v.abs() <= 2
        }
        Ty::F32 => [1i128 << 24, -(1i128 << 24)].iter().any(|b| (v - b).abs() <= 2),
        Ty::F64 => [1i128 << 53, -(1i128 << 53)].iter().any(|b| (v - b).abs() <= 2),
        _ => false,
    }
}

fn own_kind(ty: &Ty, k: Kind) -> bool {
    match ty {
        Ty::Unit => k == Kind::Null,
        Ty::Bool => k == Kind::Boolean,
        Ty::Char | Ty::Str => k == Kind::String,
        Ty::Int(it) => k == Kind::Integer || (it.signed && k == Kind::NegativeInteger),
        Ty::F32 | Ty::F64 => matches!(k, Kind::Float | Kind::Integer | Kind::NegativeInteger),
        _ => false,
    }
}

pub fn test(reg: &Reg, case: &Case, stats: Option<&mut Stats>) -> Verdict {
    let e = &reg.entries[case.ty];
    let src = if case.payload.has_nonfinite() { Src::Ov } else { src_for(case) };
    let c = compare(e, &case.payload, src);
    if let Some(st) = stats {
        st.executions += 1;
        if near_bound(&e.ty, &case.payload) || !own_kind(&e.ty, case.payload.kind()) {
            st.nontrivial(&(case.ty, &case.payload));
        }
        st.class(if c.pred_value.is_some() { "accepted" } else if own_kind(&e.ty, case.payload.kind()) { "domain error" } else { "kind error" });
        if st.want_sample() {
            st.samples.push(sample_json(
                reg,
                case,
                json!({"result": match &c.out.result { Ok(m) => format!("Ok({})", m.show()), Err(_) => "Err".to_string() }, "history": dv_core::trace::show_trace(&c.out.trace)}),
            ));
        }
    }
    verdict(e.name.as_str(), &c)
}

fn verdict(name: &str, c: &dv_core::compare::Comparison) -> Verdict {
    if let Some(p) = &c.out.panicked {
        return Verdict::Violation(format!("C05|panic|{name}"), json!({"what": format!("panicked: {p}")}));
    }
    if let Err(why) = &c.value {
        let kind = match (&c.pred_value, &c.out.result) {
            (Some(_), Ok(_)) => "wrong-value",
            (Some(_), Err(_)) => "rejected-a-representable-value",
            _ => "accepted-an-unrepresentable-value",
        };
        return Verdict::Violation(format!("C05|{kind}|{name}"), json!({"what": why, "history": dv_core::trace::show_trace(&c.out.trace)}));
    }
    if let Err(why) = &c.reports {
        let aspect = match c.pred.reports.first().map(|r| r.kind.class()) {
            Some("IncorrectValueKind") => "kind-error-wrong",
            Some("Unexpected") => "domain-error-does-not-identify-value-and-bound",
            _ => "reports-differ",
        };
        return Verdict::Violation(format!("C05|{aspect}|{name}"), json!({"what": why, "history": dv_core::trace::show_trace(&c.out.trace)}));
    }
    Verdict::Ok
}

fn boundary_ints() -> Vec<i128> {
    let mut v: Vec<i128> = vec![];
    for k in 0..=64u32 {
        let p = 1i128 << k;
        for d in [-1i128, 0, 1] {
            v.push(p + d);
            v.push(-p + d);
        }
    }
    v.retain(|x| *x >= i64::MIN as i128 && *x <= u64::MAX as i128);
    v.sort();
    v.dedup();
    v
}

pub fn run(tier: Tier) -> i32 {
    let reg = registry();
    let scalars: Vec<usize> = reg
        .all()
        .into_iter()
        .filter(|i| matches!(reg.entries[*i].ty, Ty::Unit | Ty::Bool | Ty::Char | Ty::Str | Ty::Int(_) | Ty::F32 | Ty::F64) && reg.entries[*i].origin == "std")
        .collect();
    let mut rep = Report::new(
        "C05",
        tier,
        "exhaustive part: all 30 scalar targets x {every integer in [-70000, 70000]; 2^k, 2^k+-1, -2^k, -2^k+-1 for k <= 64 within u64/i64 (this includes every type's MIN/MAX +-1)} through both sources; \
         random part: random u64/i64, floats (random bit patterns, subnormal, +-0, huge, integral, NaN/inf via OV), strings of 0..4 chars incl. multi-byte and combining marks, every non-scalar kind; \
         oracle: independent i128/u128 arithmetic (admissible kinds, domain), exact value, floats = correctly rounded conversion through the exact decimal expansion and std's parser; kind error lists exactly the admissible kinds; \
         domain error message contains the received number / 'zero' / the string and its length, and the violated bound in decimal; non-trivial = value within +-2 of a bound of the target (or of 0 / 2^24 / 2^53 for floats) or kind != the target's own kind; distinct by (type, payload)",
    );
    rep.exhaustive = true;
    let known = open_known("C05");
    let w = workers();
    // ---- exhaustive part ----
    let mut ints: Vec<i128> = (-70000i128..=70000).collect();
    ints.extend(boundary_ints());
    ints.sort();
    ints.dedup();
    let chunks: Vec<Vec<i128>> = ints.chunks(ints.len() / w + 1).map(|c| c.to_vec()).collect();
    let results: Vec<(Stats, Vec<(String, serde_json::Value, serde_json::Value)>)> = std::thread::scope(|s| {
        let hs: Vec<_> = chunks
            .iter()
            .map(|chunk| {
                let reg = reg.clone();
                let scalars = scalars.clone();
                s.spawn(move || {
                    let mut st = Stats::default();
                    let mut fails = vec![];
                    for v in chunk {
                        let pv = PV::int(*v);
                        for &ti in &scalars {
                            for aux in [0u64, 1] {
                                let case = Case { ty: ti, payload: pv.clone(), script: Script::all_continue(), aux, faults: 0 };
                                st.evaluations += 1;
                                st.sample_every = 1_000_003;
                                if let Verdict::Violation(sig, d) = test(&reg, &case, Some(&mut st)) {
                                    if fails.iter().all(|f: &(String, _, _)| f.0 != sig) {
                                        fails.push((sig, d, case_json(&reg, &case)));
                                    }
                                }
                            }
                        }
                    }
                    (st, fails)
                })
            })
            .collect();
        hs.into_iter().map(|h| h.join().unwrap()).collect()
    });
    for (st, fails) in results {
        rep.stats.merge(st);
        for (sig, d, c) in fails {
            rep.failures.push((sig, d, Some(c)));
        }
    }
    // ---- a zero is a zero: NegativeInteger(0) (which a value source other than serde_json may hand out)
    // must be treated like Integer(0) - same outcome, and for NonZero targets the same domain error
    for &ti in &scalars {
        let e = &reg.entries[ti];
        if !matches!(e.ty, Ty::Int(_) | Ty::F32 | Ty::F64) {
            continue;
        }
        let neg = Case { ty: ti, payload: PV::Neg(0), script: Script::all_continue(), aux: 0, faults: 0 };
        rep.stats.evaluations += 1;
        rep.stats.nontrivial(&(ti, "neg-zero"));
        rep.stats.class("NegativeInteger(0)");
        if let Verdict::Violation(sig, d) = test(&reg, &neg, None) {
            rep.fail(&sig, d, case_json(&reg, &neg));
        }
        if let Ty::Int(it) = &e.ty {
            if it.signed && it.nonzero {
                let msg_of = |pv: PV| -> Option<String> {
                    let o = (e.rec)(&pv, Src::Ov, &Script::all_continue());
                    o.trace.iter().find_map(|ev| match ev {
                        dv_core::trace::Event::Report { kind: dv_core::trace::RKind::Unexpected { msg }, .. } => Some(msg.clone()),
                        _ => None,
                    })
                };
                let (a, b) = (msg_of(PV::Int(0)), msg_of(PV::Neg(0)));
                if a != b {
                    rep.fail(
                        &format!("C05|zero-described-differently-by-kind|{}", e.name),
                        json!({"what": format!("zero into {}: as Integer(0) the domain error reads {a:?}, as NegativeInteger(0) it reads {b:?}", e.name)}),
                        case_json(&reg, &neg),
                    );
                }
            }
        }
    }
    let exhaustive_n = rep.stats.evaluations;
    rep.extra.insert("exhaustive_evaluations".into(), json!(exhaustive_n));
    // ---- random part ----
    let sc = scalars.clone();
    let gen: dv_core::runner::GenFn = Arc::new(move |rng| {
        let ti = sc[rng.random_range(0..sc.len())];
        let mut g = Gen::new(rng, GenCfg { nonfinite: true, ..GenCfg::default() });
        let payload = match g.below(12) {
            0..=3 => g.int_any(),
            4..=6 => {
                if g.chance(0.1) {
                    g.nonfinite()
                } else {
                    g.float_any()
                }
            }
            7..=9 => {
                let n = g.below(5);
                let alpha = ['a', 'Z', '0', ' ', 'é', '日', '🥺', '\u{301}', '`', '\u{0}'];
                PV::Str((0..n).map(|_| *g.pick(&alpha)).collect())
            }
            _ => g.blind(2),
        };
        Case { ty: ti, payload, script: Script::all_continue(), aux: rng.random::<u64>(), faults: 0 }
    });
    let n = tier.pick(1_600_000u32, 32_000_000u32) / w as u32;
    let reg2 = reg.clone();
    let out = run_cases("C05", rep.seed, w, n, gen, move |case, stats| match test(&reg2, case, stats) {
        Verdict::Violation(sig, _) if known.contains_key(&sig) => Verdict::Known(sig),
        v => v,
    });
    rep.stats.merge(out.stats);
    for f in out.failures {
        rep.failures.push((f.signature.clone(), f.details.clone(), Some(case_json(&reg, &f.case))));
    }
    rep.finish()
}
