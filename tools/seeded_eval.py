#!/usr/bin/env python3
"""Confirm a seeded change delivered by a sub-agent and run every quick check against it.
usage: seeded_eval.py <agent-out-dir> <N> <seed-id>      e.g. seeded_eval.py /tmp/seed/C02/OUT 1 C02-1
Works on scratch copies only (/tmp/se); /repo and /verif sources are never modified, except
that a confirmed change is stored under /verif/seeded/<seed-id>/ (patch.diff, demo.rs, meta.json)."""
import json, os, shutil, subprocess, sys, time

SE = os.environ.get("SE_DIR", "/tmp/se")
WT = f"{SE}/wt"
MH = f"{SE}/harness"
OUT = f"{SE}/out"
PROPS = [f"C{i:02d}" for i in range(1, 21)]

def sh(cmd, cwd=None, timeout=3600):
    return subprocess.run(cmd, shell=True, capture_output=True, text=True, cwd=cwd, timeout=timeout)

def prepare():
    os.makedirs(SE, exist_ok=True)
    if not os.path.exists(WT):
        r = sh(f"git -C /repo worktree add -q --detach {WT} HEAD")
        if r.returncode: print(r.stderr); sys.exit(2)
    else:
        sh("git checkout -q -- . && git clean -qfd tests", cwd=WT)
        head = sh("git -C /repo rev-parse HEAD").stdout.strip()
        sh(f"git checkout -q --detach {head}", cwd=WT)
    sh(f"rsync -a --delete --exclude target --exclude fuzz /verif/harness/ {MH}/")
    sh(f"sed -i 's#path = \"/repo\"#path = \"{WT}\"#' {MH}/Cargo.toml {MH}/http/Cargo.toml")
    sh(f"sed -i 's#target-dir = \"/verif/target\"#target-dir = \"{SE}/target\"#' {MH}/.cargo/config.toml")
    os.makedirs(OUT, exist_ok=True)
    sh(f"rsync -a --delete --exclude target /verif/c16/ {OUT}/c16/")
    sh(f"sed -i 's#path = \"/repo\"#path = \"{WT}\"#' {OUT}/c16/Cargo.toml")
    sh(f"sed -i 's#target-dir = \"/verif/target/c16\"#target-dir = \"{SE}/target_c16\"#' {OUT}/c16/.cargo/config.toml")
    shutil.copy('/verif/known_findings.json', OUT)

def tests_pass():
    r = sh("cargo test --workspace --no-fail-fast --offline 2>&1", cwd=WT)
    p = f = 0
    for l in r.stdout.splitlines():
        if l.startswith("test result:"):
            w = l.split()
            p += int(w[3]); f += int(w[5])
    return p, f, r.returncode

def demo(n):
    feats = "--features actix-web,axum " if FEATURES else ""
    if SHELL_DEMO:
        # a script that exits 0 iff the property holds (used for the derive-rejection property)
        os.makedirs(f"{WT}/OUT", exist_ok=True)
        for f in (f"demo{n}.sh", f"demo{n}.rs"):
            shutil.copy(f"{SHELL_DEMO}/{f}", f"{WT}/OUT/{f}")
        r = sh(f"sh OUT/demo{n}.sh 2>&1", cwd=WT)
        return r.returncode == 0, r.stdout[-1500:]
    r = sh(f"cargo test --offline {feats}--test demo{n} 2>&1", cwd=WT)
    return r.returncode == 0, r.stdout[-1500:]

FEATURES = False
SHELL_DEMO = None
OWN_PROP = None

def run_checks():
    # the generators' source-derived dictionary, from the (patched) scratch tree - as run.sh does for /repo
    os.makedirs(f"{OUT}/work", exist_ok=True)
    sh(f"python3 /verif/tools/mkdict.py {WT} {OUT}/work/dict.json")
    r = sh(f"cargo build -q -p dv_gen && {SE}/target/debug/dv_gen 1 generated/src/types.rs && cargo build -q -p dv_check && cargo build -q -p dv_http", cwd=MH)
    if r.returncode:
        return {"build_error": r.stderr[-2000:]}
    res = {}
    only = os.environ.get("SE_CHECKS")   # e.g. "own" (the property the change breaks) or "C01,C04"
    props = PROPS
    if only:
        props = [OWN_PROP] if only == "own" else [x for x in only.split(",") if x in PROPS]
    for p in props:
        env = dict(os.environ, VERIF_DIR=OUT, VERIF_SEED="1")
        binary = "dv_http" if p == "C20" else "dv_check"
        t = time.time()
        rr = subprocess.run([f"{SE}/target/debug/{binary}", p, "quick"], capture_output=True, text=True, env=env)
        sigs = [l.strip()[len("signature: "):] for l in rr.stdout.splitlines() if l.strip().startswith("signature: ")]
        res[p] = {"exit": rr.returncode, "signatures": sigs[:5], "secs": round(time.time() - t, 1)}
    return res

def own_only(outdir, n, sid):
    """Cheap re-evaluation of an already confirmed change: only the check of the property it breaks is run
    (SE_OWN_ONLY=1); the demonstration and the test suite were confirmed when the change was first kept."""
    d = f"/verif/seeded/{sid}"
    meta = json.load(open(f"{d}/meta.json"))
    prop = meta.get("breaks_property") or sid[:3]
    prepare()
    r = sh(f"git apply {outdir}/patch{n}.diff", cwd=WT)
    if r.returncode:
        print(f"{sid}: patch does not apply: {r.stderr[-300:]}"); sys.exit(1)
    shutil.rmtree(f"{OUT}/replays", ignore_errors=True)
    os.makedirs(f"{OUT}/work", exist_ok=True)
    sh(f"python3 /verif/tools/mkdict.py {WT} {OUT}/work/dict.json")
    binary = "dv_http" if prop == "C20" else "dv_check"
    b = sh(f"cargo build -q -p dv_gen && {SE}/target/debug/dv_gen 1 generated/src/types.rs && cargo build -q -p {binary}", cwd=MH)
    if b.returncode:
        print(f"{sid}: build error {b.stderr[-800:]}"); sh("git checkout -q -- .", cwd=WT); sys.exit(1)
    env = dict(os.environ, VERIF_DIR=OUT, VERIF_SEED="1")
    rr = subprocess.run([f"{SE}/target/debug/{binary}", prop, "quick"], capture_output=True, text=True, env=env)
    sigs = [l.strip()[len("signature: "):] for l in rr.stdout.splitlines() if l.strip().startswith("signature: ")]
    sh("git checkout -q -- . && git clean -qfd tests", cwd=WT)
    head = sh("git -C /verif rev-parse --short HEAD").stdout.strip()
    meta["own_check_rerun"] = {"harness_commit": head, "exit": rr.returncode, "signatures": sigs[:5]}
    caught = set(meta.get("caught_by", []))
    if rr.returncode == 1: caught.add(prop)
    else: caught.discard(prop)
    meta["caught_by"] = sorted(caught)
    json.dump(meta, open(f"{d}/meta.json", "w"), indent=1)
    if os.path.isdir(f"{OUT}/replays"):
        shutil.rmtree(f"{d}/replays_own", ignore_errors=True)
        shutil.copytree(f"{OUT}/replays", f"{d}/replays_own")
    print(f"{sid}: own={prop} exit={rr.returncode} {sigs[:2]}")

def main():
    outdir, n, sid = sys.argv[1], sys.argv[2], sys.argv[3]
    if os.environ.get("SE_OWN_ONLY") and os.path.exists(f"/verif/seeded/{sid}/meta.json"):
        return own_only(outdir, n, sid)
    patch = f"{outdir}/patch{n}.diff"; demo_src = f"{outdir}/demo{n}.rs"; meta_src = f"{outdir}/meta{n}.json"
    global FEATURES, SHELL_DEMO, OWN_PROP
    OWN_PROP = sid[:3]
    FEATURES = sid.startswith("C20")
    if os.path.exists(f"{outdir}/demo{n}.sh"):
        SHELL_DEMO = outdir
    prepare()
    log = {"seed_id": sid, "source_dir": outdir}
    # demo on the untouched tree
    shutil.copy(demo_src, f"{WT}/tests/demo{n}.rs")
    ok_clean, _ = demo(n)
    log["demo_passes_without_change"] = ok_clean
    r = sh(f"git apply {patch}", cwd=WT)
    if r.returncode:
        log["error"] = "patch does not apply: " + r.stderr[-500:]
        print(json.dumps(log, indent=1)); sys.exit(1)
    ok_patched, tail = demo(n)
    log["demo_fails_with_change"] = not ok_patched
    if os.path.exists(f"{WT}/tests/demo{n}.rs"):
        os.remove(f"{WT}/tests/demo{n}.rs")
    shutil.rmtree(f"{WT}/OUT", ignore_errors=True)
    p, f, rc = tests_pass()
    log["suite_with_change"] = {"passed": p, "failed": f, "exit": rc}
    valid = ok_clean and (not ok_patched) and f == 0 and rc == 0 and p >= 45
    log["confirmed"] = valid
    shutil.rmtree(f"{OUT}/replays", ignore_errors=True)
    res = run_checks()
    log["checks"] = res
    caught = [k for k, v in res.items() if isinstance(v, dict) and v.get("exit") == 1]
    infra = [k for k, v in res.items() if isinstance(v, dict) and v.get("exit") not in (0, 1)]
    log["caught_by"] = caught; log["infra"] = infra
    sh("git checkout -q -- . && git clean -qfd tests", cwd=WT)
    if valid:
        d = f"/verif/seeded/{sid}"
        os.makedirs(d, exist_ok=True)
        shutil.copy(patch, f"{d}/patch.diff"); shutil.copy(demo_src, f"{d}/demo.rs")
        if SHELL_DEMO:
            shutil.copy(f"{outdir}/demo{n}.sh", f"{d}/demo.sh")
        meta = json.load(open(meta_src)) if os.path.exists(meta_src) else {}
        meta.update({"seed_id": sid, "breaks_property": meta.get("property", sid[:3]),
                     "confirmed_by_me": {"demo_passes_without_change": ok_clean, "demo_fails_with_change": not ok_patched,
                                         "suite_with_change": log["suite_with_change"],
                                         "how": "scratch worktree under /tmp: cargo test --offline --test demoN with and without the patch; cargo test --workspace --no-fail-fast --offline with the patch"},
                     "quick_checks_run_against_it": {k: v for k, v in res.items()} if isinstance(res, dict) else res,
                     "caught_by": caught})
        json.dump(meta, open(f"{d}/meta.json", "w"), indent=1)
        # the shrunk cases with which the checks caught it (candidates for the regression replay tier)
        if os.path.isdir(f"{OUT}/replays"):
            shutil.rmtree(f"{d}/replays", ignore_errors=True)
            shutil.copytree(f"{OUT}/replays", f"{d}/replays")
    print(f"{sid}: confirmed={valid} caught_by={caught} infra={infra} suite={log['suite_with_change']} demo_clean={ok_clean} demo_patched_fails={not ok_patched}")
    for k in caught:
        print("   ", k, res[k]["signatures"][:2])

main()
