#!/usr/bin/env python3
"""Source-derived dictionary: integer and string literals that occur in deserr's sources.

A change that introduces a magic constant (a length threshold, a special number, a special key) puts that
very constant into the source text, hence into this dictionary, hence into the generators' pools.

usage: mkdict.py <repo> <out.json>      (a pure function of the repository's current working tree)"""
import glob
import json
import os
import re
import sys

repo, out = sys.argv[1], sys.argv[2]
ints, strs = set(), set()
files = sorted(
    glob.glob(os.path.join(repo, "src", "**", "*.rs"), recursive=True)
    + glob.glob(os.path.join(repo, "derive", "src", "**", "*.rs"), recursive=True)
)
for f in files:
    try:
        text = open(f, errors="replace").read()
    except OSError:
        continue
    text = re.sub(r"//[^\n]*", "", text)  # line and doc comments
    for m in re.finditer(r"(?<![\w.])(0x[0-9a-fA-F_]+|\d[\d_]*)(?:[iu](?:8|16|32|64|128|size))?(?!\w)(?!\.\d)", text):
        t = m.group(1).replace("_", "")
        try:
            v = int(t, 16) if t.startswith("0x") else int(t)
        except ValueError:
            continue
        if 2 <= v <= (1 << 64) - 1:
            ints.add(v)
    for m in re.finditer(r'"((?:[^"\\\n]|\\.){1,24})"', text):
        s = m.group(1)
        if "{" in s or "\\" in s:
            continue
        strs.add(s)
    # character literals ('$', '-', ...): conditions such as starts_with('$') put them into the source text
    for m in re.finditer(r"(?<![A-Za-z0-9_&<])'([^'\\\n])'", text):
        strs.add(m.group(1))
os.makedirs(os.path.dirname(out) or ".", exist_ok=True)
json.dump({"ints": sorted(ints)[:400], "strs": sorted(strs)[:300]}, open(out, "w"))
