#!/usr/bin/env python3
"""Source-derived dictionary: integer and string literals that occur in deserr's sources.

A change that introduces a magic constant (a length threshold, a special number, a special key) puts that
very constant into the source text, hence into this dictionary, hence into the generators' pools.

usage: mkdict.py <repo> <out.json>      (a pure function of the repository's current working tree)"""
import glob
import json
import os
import re
import sys

repo, out = sys.argv[1], sys.argv[2]
ints, strs = set(), set()
files = sorted(
    glob.glob(os.path.join(repo, "src", "**", "*.rs"), recursive=True)
    + glob.glob(os.path.join(repo, "derive", "src", "**", "*.rs"), recursive=True)
)
for f in files:
    try:
        text = open(f, errors="replace").read()
    except OSError:
        continue
    text = re.sub(r"//[^\n]*", "", text)  # line and doc comments
    for m in re.finditer(r"(?<![\w.])(0x[0-9a-fA-F_]+|\d[\d_]*)(?:[iu](?:8|16|32|64|128|size))?(?!\w)(?!\.\d)", text):
        t = m.group(1).replace("_", "")
        try:
            v = int(t, 16) if t.startswith("0x") else int(t)
        except ValueError:
            continue
        if 2 <= v <= (1 << 64) - 1:
            ints.add(v)
    def unescape(t):
        # Rust escapes -> text (\n \t \r \0 \\ \" \' \xNN \u{N..}); None when something else is escaped
        out, i = [], 0
        while i < len(t):
            c = t[i]
            if c != "\\":
                out.append(c); i += 1; continue
            if i + 1 >= len(t):
                return None
            e = t[i + 1]
            simple = {"n": "\n", "t": "\t", "r": "\r", "0": "\0", "\\": "\\", '"': '"', "'": "'"}
            if e in simple:
                out.append(simple[e]); i += 2
            elif e == "x" and re.match(r"[0-9a-fA-F]{2}", t[i + 2:i + 4] or ""):
                out.append(chr(int(t[i + 2:i + 4], 16))); i += 4
            elif e == "u":
                mm = re.match(r"\{([0-9a-fA-F_]{1,6})\}", t[i + 2:])
                if not mm:
                    return None
                out.append(chr(int(mm.group(1).replace("_", ""), 16))); i += 2 + mm.end()
            else:
                return None
        return "".join(out)

    for m in re.finditer(r'"((?:[^"\\\n]|\\.){1,24})"', text):
        s = m.group(1)
        if "\\" in s:
            u = unescape(s)
            if u is not None and "{" not in u.replace("\x1b", "") and 0 < len(u) <= 24:
                strs.add(u)
            continue
        if "{" in s:
            continue
        strs.add(s)
    # escaped character literals ('\u{1b}', '\n', '\x7f', ...)
    for m in re.finditer(r"(?<![A-Za-z0-9_&<])'(\\(?:[ntr0\\'\"]|x[0-9a-fA-F]{2}|u\{[0-9a-fA-F_]{1,6}\}))'", text):
        u = unescape(m.group(1))
        if u:
            strs.add(u)
    # character literals ('$', '-', ...): conditions such as starts_with('$') put them into the source text
    for m in re.finditer(r"(?<![A-Za-z0-9_&<])'([^'\\\n])'", text):
        strs.add(m.group(1))
os.makedirs(os.path.dirname(out) or ".", exist_ok=True)
json.dump({"ints": sorted(ints)[:400], "strs": sorted(strs)[:300]}, open(out, "w"))
