#!/bin/bash
# thorough-tier fuzz stage:  fuzz_stage.sh <property> <target> <runs>
# exit 0: no violation of <property> found (or the stage is unavailable: noted in evidence)
# exit 1: violation found, replay file written, VIOLATION line printed
cd "$(dirname "$0")/.." || exit 0
prop="$1"; target="$2"; runs="$3"
seed="${VERIF_SEED:-1}"
ev="evidence/$prop.json"
note() { python3 - "$ev" "$1" "$2" <<'PY'
import json,sys
p=sys.argv[1]
try: e=json.load(open(p))
except Exception: sys.exit(0)
e.setdefault('coverage',{})['fuzz_stage']={'status':sys.argv[2],'detail':json.loads(sys.argv[3])}
json.dump(e,open(p,'w'),indent=1)
PY
}
mkdir -p work/fuzz work/log
export CARGO_TARGET_DIR="${CARGO_TARGET_DIR:-$(pwd)/target}"
blog="work/log/fuzzbuild.$prop.$$.log"
( exec 9> work/fuzzbuild.lock; flock 9; cd harness/fuzz && cargo +nightly fuzz build "$target" > "../../$blog" 2>&1 )
if [ $? -ne 0 ]; then note unavailable "{\"reason\":\"cargo +nightly fuzz build failed\"}"; echo "fuzz stage unavailable (build failed), PBT part decides" >&2; exit 0; fi
rm -f "$blog"
export CARGO_TARGET_DIR="${CARGO_TARGET_DIR:-$(pwd)/target}"
bin="$CARGO_TARGET_DIR/x86_64-unknown-linux-gnu/release/$target"
[ -x "$bin" ] || { note unavailable "{\"reason\":\"fuzz binary missing\"}"; exit 0; }
# 8 independent libFuzzer processes (different seeds, own corpus), each with runs/8
W="${VERIF_FUZZ_WORKERS:-8}"
per=$(( runs / W ))
flog="work/fuzz/log.$prop.$$"
: > "$flog"
t0=$(date +%s)
pids=""
for i in $(seq 1 $W); do
  c="work/fuzz/corpus.$prop.$$.$i"; mkdir -p "$c"; cp harness/fuzz/seeds/"$target"/* "$c"/ 2>/dev/null
  DV_FUZZ_PROP="$prop" "$bin" "$c" -runs="$per" -seed="$(( seed * 100 + i ))" -len_control=0 -max_len=512 -use_value_profile=1 -artifact_prefix="work/fuzz/art.$prop.$$.$i." > "$flog.$i" 2>&1 &
  pids="$pids $!"
done
rc=0
for p in $pids; do wait $p || rc=$?; done
t1=$(date +%s)
execs=0; cov=0; ncorp=0
for i in $(seq 1 $W); do
  e=$(grep -oE "Done [0-9]+ runs" "$flog.$i" | grep -oE "[0-9]+" | tail -1); execs=$(( execs + ${e:-0} ))
  c=$(grep -oE "cov: [0-9]+" "$flog.$i" | tail -1 | grep -oE "[0-9]+"); [ "${c:-0}" -gt "$cov" ] && cov=$c
  n=$(ls "work/fuzz/corpus.$prop.$$.$i" | wc -l); ncorp=$(( ncorp + n ))
  cat "$flog.$i" >> "$flog"; rm -f "$flog.$i"
done
corpus="work/fuzz/corpus.$prop.$$"
cleanup() { rm -rf work/fuzz/corpus.$prop.$$.* ; }
if grep -q "^FUZZ-CASE " "$flog"; then
  python3 - "$flog" "$prop" "$seed" <<'PY'
import json,sys,hashlib
log,prop,seed=sys.argv[1:4]
line=[l for l in open(log,errors='replace') if l.startswith('FUZZ-CASE ')][-1][len('FUZZ-CASE '):]
c=json.loads(line)
body={"property":c["property"],"tier":"thorough","seed":int(seed),"signature":c.get("signature"),"details":{"what":c.get("what"),"found_by":"libFuzzer stage"},"case":c.get("case",c)}
if "json_text" in c: body["case"]={"json_text":c["json_text"]}
if "received" in c: body["case"]={"received":c["received"],"accepted":c["accepted"]}
h=hashlib.sha1(line.encode()).hexdigest()[:16]
import os
path=os.path.join(os.getcwd(),"replays",f"{prop}-fuzz-{h}.json")
json.dump(body,open(path,'w'),indent=1)
print(f"VIOLATION property={prop} replay={path}")
print("  signature:",c.get("signature"))
PY
  note violation "{\"target\":\"$target\",\"runs\":${execs:-0},\"secs\":$((t1-t0))}"
  python3 - "$ev" <<'PY'
import json,sys
p=sys.argv[1]
try:
    e=json.load(open(p)); e['violations']=e.get('violations',0)+1; json.dump(e,open(p,'w'),indent=1)
except Exception: pass
PY
  cleanup
  exit 1
fi
if [ $rc -ne 0 ]; then
  # crash without a semantic violation line (OOM, timeout, harness abort): infrastructure, not a verdict
  note inconclusive "{\"target\":\"$target\",\"exit\":$rc,\"log_tail\":$(tail -3 "$flog" | python3 -c 'import json,sys; print(json.dumps(sys.stdin.read()))')}"
  cleanup; exit 0
fi
note ok "{\"target\":\"$target\",\"engine\":\"libFuzzer (cargo-fuzz 0.13), coverage-guided, oracle inside the target\",\"processes\":$W,\"runs\":${execs:-0},\"coverage_edges\":${cov:-0},\"corpus_files\":$ncorp,\"secs\":$((t1-t0)),\"seed\":$seed}"
cleanup; rm -f "$flog"
exit 0
