#!/usr/bin/env python3
"""Sensitivity matrix: applies purpose-made mutants to a scratch COPY of /repo, rebuilds a scratch
copy of the harness against it and records which quick checks raise a VIOLATION.
Nothing under /repo or /verif is modified except the result file tools/mutation_matrix.json.
usage: mutation_matrix.py [mutant-name ...]   (default: all)"""
import json, os, subprocess, sys, shutil, time

SCR = "/tmp/mm"
MREPO = f"{SCR}/repo"
MH = f"{SCR}/harness"
OUT = f"{SCR}/out"

MUTANTS = [
 # name, file, old, new, expected props
 ("vec_drops_accumulated_error", "src/impls.rs",
  "                if let Some(e) = error {\n                    Err(e)\n                } else {\n                    Ok(vec)\n                }",
  "                let _ = error;\n                Ok(vec)", ["C01", "C02"]),
 ("tuple2_second_elem_index0", "src/impls.rs",
  "                let b = B::deserialize_from_value(\n                    iter.next().unwrap().into_value(),\n                    location.push_index(1),\n                );\n                let b = match b {\n                    Ok(b) => Some(b),\n                    Err(e) => {\n                        error = match E::merge(error, e, location.push_index(1)) {\n                            ControlFlow::Continue(e) => Some(e),\n                            ControlFlow::Break(e) => return Err(e),\n                        };\n                        None\n                    }\n                };\n\n                if let Some(error) = error {\n                    Err(error)\n                } else {\n                    Ok((a.unwrap(), b.unwrap()))",
  "                let b = B::deserialize_from_value(\n                    iter.next().unwrap().into_value(),\n                    location.push_index(0),\n                );\n                let b = match b {\n                    Ok(b) => Some(b),\n                    Err(e) => {\n                        error = match E::merge(error, e, location.push_index(0)) {\n                            ControlFlow::Continue(e) => Some(e),\n                            ControlFlow::Break(e) => return Err(e),\n                        };\n                        None\n                    }\n                };\n\n                if let Some(error) = error {\n                    Err(error)\n                } else {\n                    Ok((a.unwrap(), b.unwrap()))", ["C04"]),
 ("unsigned_as_cast", "src/impls.rs",
  "                match value {\n                    Value::Integer(x) => <$t>::try_from(x).or_else(|_| {\n                        Err(take_cf_content(E::error::<V>(\n                            None,\n                            ErrorKind::Unexpected {\n                                msg: format!(\n                                    \"value: `{x}` is too large to be deserialized, maximum value authorized is `{}`\",\n                                    <$t>::MAX\n                                ),\n                            },\n                            location,\n                        )))\n                    }),\n                    v => Err(take_cf_content(err(v))),\n                }\n            }\n        }\n    };\n}\n\ndeserialize_impl_integer!(u8);",
  "                match value {\n                    Value::Integer(x) => Ok(x as $t),\n                    v => Err(take_cf_content(err(v))),\n                }\n            }\n        }\n    };\n}\n\ndeserialize_impl_integer!(u8);", ["C05"]),
 ("option_false_is_none", "src/impls.rs",
  "            Value::Null => Ok(None),\n            value => T::deserialize_from_value(value, location).map(Some),",
  "            Value::Null => Ok(None),\n            Value::Boolean(false) => Ok(None),\n            value => T::deserialize_from_value(value, location).map(Some),", ["C06", "C02"]),
 ("rename_all_beats_rename", "derive/src/parse_type.rs",
  "    match rename {\n        Some(name) => name.to_string(),\n        None => match rename_all {\n            Some(RenameAll::CamelCase) => ident.to_case(Case::Camel),\n            Some(RenameAll::LowerCase) => ident.to_lowercase(),\n            None => ident,\n        },\n    }",
  "    match (rename_all, rename) {\n        (Some(RenameAll::CamelCase), _) => ident.to_case(Case::Camel),\n        (Some(RenameAll::LowerCase), _) => ident.to_lowercase(),\n        (None, Some(name)) => name.to_string(),\n        (None, None) => ident,\n    }", ["C07"]),
 ("variant_inherits_container_rename_all", "derive/src/attribute_parser.rs",
  "        self.rename_all = other.rename_all.clone();",
  "        if other.rename_all.is_some() {\n            self.rename_all = other.rename_all.clone();\n        }", ["C07"]),
 ("err_counts_as_missing", "src/lib.rs",
  "        matches!(self, FieldState::Missing)",
  "        matches!(self, FieldState::Missing | FieldState::Err)", ["C08", "C02"]),
 ("unknown_key_reported_at_key_location", "derive/src/parse_type.rs",
  "                            accepted: &[#(#key_names),*],\n                        },\n                        deserr_location__\n                    ) {",
  "                            accepted: &[#(#key_names),*],\n                        },\n                        deserr_location__.push_key(deserr_key__)\n                    ) {", ["C09", "C04", "C02"]),
 ("vec_break_continues", "src/impls.rs",
  "                        Err(e) => {\n                            error = match E::merge(error, e, location.push_index(index)) {\n                                ControlFlow::Continue(e) => Some(e),\n                                ControlFlow::Break(e) => return Err(e),\n                            };\n                        }\n                    }\n                }\n                if let Some(e) = error {\n                    Err(e)\n                } else {\n                    Ok(vec)\n                }",
  "                        Err(e) => {\n                            error = match E::merge(error, e, location.push_index(index)) {\n                                ControlFlow::Continue(e) => Some(e),\n                                ControlFlow::Break(e) => Some(e),\n                            };\n                        }\n                    }\n                }\n                if let Some(e) = error {\n                    Err(e)\n                } else {\n                    Ok(vec)\n                }", ["C03"]),
 ("validate_at_origin", "derive/src/parse_type.rs",
  "                #validate_func (deserr_final__, deserr_location__) .map_err(|validate_error__|{",
  "                #validate_func (deserr_final__, ::deserr::ValuePointerRef::Origin) .map_err(|validate_error__|{", ["C11"]),
 ("bridge_i64_before_u64", "src/serde_json.rs",
  "                if let Some(n) = n.as_u64() {\n                    Value::Integer(n)\n                } else if let Some(n) = n.as_i64() {\n                    Value::NegativeInteger(n)",
  "                if let Some(n) = n.as_i64() {\n                    Value::NegativeInteger(n)\n                } else if let Some(n) = n.as_u64() {\n                    Value::Integer(n)", ["C13"]),
 ("did_you_mean_threshold_off_by_one", "src/errors/helpers.rs",
  "        4..=7 => 1,\n        8..=12 => 2,", "        4..=8 => 1,\n        9..=12 => 2,", ["C18"]),
 ("did_you_mean_last_minimum", "src/errors/helpers.rs",
  "        .min_by(|(_, d1), (_, d2)| d1.cmp(d2))", "        .min_by(|(_, d1), (_, d2)| d1.cmp(d2).then(std::cmp::Ordering::Greater))", ["C18"]),
 ("first_field_returns_innermost_key", "src/value.rs",
  "            ValuePointerRef::Key { key, prev } => prev.first_field().or(Some(key)),",
  "            ValuePointerRef::Key { key, .. } => Some(key),", ["C19"]),
 ("json_location_drops_index", "src/errors/json.rs",
  "            ValuePointerRef::Index { index, prev } => format!(\"{}[{index}]\", rec(*prev)),\n        }\n    }\n    match location {\n        ValuePointerRef::Origin => String::new(),\n        _ => {\n            format!(\"{article} `{}`\", rec(location))",
  "            ValuePointerRef::Index { index: _, prev } => rec(*prev),\n        }\n    }\n    match location {\n        ValuePointerRef::Origin => String::new(),\n        _ => {\n            format!(\"{article} `{}`\", rec(location))", ["C14"]),
 ("kinds_description_no_dedup", "src/errors/json.rs",
  "    kinds.sort_by_key(order);\n    kinds.dedup();", "    kinds.sort_by_key(order);", ["C17"]),
 ("kinds_description_no_sort", "src/errors/json.rs",
  "    kinds.sort_by_key(order);\n    kinds.dedup();", "    kinds.dedup();", ["C17"]),
 ("missing_tag_reported_at_tag_location", "derive/src/derive_enum.rs",
  "                                ::deserr::ErrorKind::MissingField {\n                                    field: #tag,\n                                },\n                                deserr_location__\n                            ))",
  "                                ::deserr::ErrorKind::MissingField {\n                                    field: #tag,\n                                },\n                                deserr_location__.push_key(#tag)\n                            ))", ["C10", "C04", "C02"]),
 ("array_arity_only_rejects_longer", "src/impls.rs",
  "                let len = seq.len();\n                if len != N {", "                let len = seq.len();\n                if len > N {", ["C06", "C12"]),
 ("missing_checks_skipped_after_an_error", "derive/src/derive_named_fields.rs",
  "        #(\n            if #field_names .is_missing() {\n                #missing_field_errors\n            }\n        )*",
  "        #(\n            if deserr_error__.is_none() && #field_names .is_missing() {\n                #missing_field_errors\n            }\n        )*", ["C02", "C08"]),
 ("unknown_key_stops_the_scan", "derive/src/parse_type.rs",
  "            None => quote! {},\n        };\n\n        Ok(Self {\n            field_names,",
  "            None => quote! { break; },\n        };\n\n        Ok(Self {\n            field_names,", ["C15", "C09", "C02"]),
 ("map_probe_skipped_for_defaulted", "derive/src/derive_named_fields.rs",
  "                    #field_names : #field_names.map(#field_maps).unwrap(),",
  "                    #field_names : #field_names.map(#field_maps).unwrap(),", []),
 ("try_from_error_merged_twice", "derive/src/derive_user_provided_function.rs",
  "                        <#err_ty as ::deserr::MergeWithError<#function_error_ty>>::merge(None, e, deserr_location__)\n                    )",
  "                        <#err_ty as ::deserr::MergeWithError<#function_error_ty>>::merge(None, e, ::deserr::ValuePointerRef::Origin)\n                    )", ["C11", "C04"]),
 ("hashset_stops_at_first_duplicate", "src/impls.rs",
  "                        Ok(value) => {\n                            set.insert(value);\n                        }\n                        Err(e) => {\n                            error = match E::merge(error, e, location.push_index(index)) {\n                                ControlFlow::Continue(e) => Some(e),\n                                ControlFlow::Break(e) => return Err(e),\n                            };\n                        }\n                    }\n                }\n                if let Some(e) = error {\n                    Err(e)\n                } else {\n                    Ok(set)\n                }\n            }\n            v => Err(take_cf_content(E::error(\n                None,\n                ErrorKind::IncorrectValueKind {\n                    actual: v,\n                    accepted: &[ValueKind::Sequence],\n                },\n                location,\n            ))),\n        }\n    }\n}\n\nimpl<T, E> Deserr<E> for BTreeSet<T>",
  "                        Ok(value) => {\n                            if !set.insert(value) {\n                                break;\n                            }\n                        }\n                        Err(e) => {\n                            error = match E::merge(error, e, location.push_index(index)) {\n                                ControlFlow::Continue(e) => Some(e),\n                                ControlFlow::Break(e) => return Err(e),\n                            };\n                        }\n                    }\n                }\n                if let Some(e) = error {\n                    Err(e)\n                } else {\n                    Ok(set)\n                }\n            }\n            v => Err(take_cf_content(E::error(\n                None,\n                ErrorKind::IncorrectValueKind {\n                    actual: v,\n                    accepted: &[ValueKind::Sequence],\n                },\n                location,\n            ))),\n        }\n    }\n}\n\nimpl<T, E> Deserr<E> for BTreeSet<T>", ["C06", "C02"]),
 ("f32_from_int_via_f64", "src/impls.rs",
  "                    Value::Integer(x) => Ok(x as $t),\n                    Value::NegativeInteger(x) => Ok(x as $t),",
  "                    Value::Integer(x) => Ok(x as f64 as $t),\n                    Value::NegativeInteger(x) => Ok(x as f64 as $t),", ["C05"]),
 ("nonzero_signed_accepts_zero_neg", "src/impls.rs",
  "                    Value::Integer(x) if x == 0 => {\n                      Err(take_cf_content(E::error::<V>(\n                          None,\n                          ErrorKind::Unexpected {\n                              msg: format!(\n                                  \"a non-zero integer value lower than `{}` was expected, but found a zero\",\n                                  <$t>::MAX\n                              ),",
  "                    Value::Integer(x) if x == 0 => {\n                      Err(take_cf_content(E::error::<V>(\n                          None,\n                          ErrorKind::Unexpected {\n                              msg: format!(\n                                  \"an integer value was expected, but found a zero\"\n                              ),", ["C05"]),
]


# Semantics-preserving changes (rewording, reordering of independent things): NO check may fire on them.
BENIGN = [
 ("benign_reword_too_large", "src/impls.rs",
  "\"value: `{x}` is too large to be deserialized, maximum value authorized is `{}`\"",
  "\"the number {x} exceeds the maximum {}\"", "all"),
 ("benign_reword_too_small", "src/impls.rs",
  "\"value: `{x}` is too small to be deserialized, minimum value authorized is `{}`\"",
  "\"the number {x} is below the minimum {}\"", "all"),
 ("benign_reword_char", "src/impls.rs",
  "\"expected a string of one character, but found the following string of {} characters: `{}`\"",
  "\"exactly one character is needed, got {} in {:?}-ish text `{1}`\"", "first"),
 ("benign_reword_zero", "src/impls.rs",
  "\"a non-zero integer value lower than `{}` was expected, but found a zero\"",
  "\"zero is not allowed here: the value must be non-zero and at most {}\"", "all"),
 ("benign_reword_map_key", "src/impls.rs",
  "the key \\\"{string_key}\\\" could not be deserialized into the key type `{}`",
  "cannot read the key {string_key:?} as a `{}`", "all"),
 ("benign_reword_tag", "derive/src/derive_enum.rs",
  "\"Incorrect tag value\"", "\"this tag names no variant\"", "all"),
 ("benign_json_wording", "src/errors/json.rs",
  "\"Invalid value type{location}: expected {expected}, but found {received}\"",
  "\"Wrong type{location}: wanted {expected}, got {received}\"", "all"),
 ("benign_json_missing_wording", "src/errors/json.rs",
  "\"Missing field `{field}`{location}\"", "\"The field `{field}` is absent{location}\"", "all"),
 ("benign_did_you_mean_wording", "src/errors/helpers.rs",
  "\"did you mean `{}`? \"", "\"maybe `{}`? \"", "all"),
 ("benign_accepted_kinds_order", "src/impls.rs",
  "accepted: &[ValueKind::Integer, ValueKind::NegativeInteger],",
  "accepted: &[ValueKind::NegativeInteger, ValueKind::Integer],", "all"),
 ("benign_kind_names", "src/errors/json.rs",
  "ValueKind::Boolean => \"a boolean\",", "ValueKind::Boolean => \"a bool\",", "all"),
 ("benign_query_wording", "src/errors/query_params.rs",
  "\"Invalid value type{location}: expected {expected}, but found {received}\"",
  "\"Bad parameter type{location}: wanted {expected}, got {received}\"", "all"),
 ("benign_vec_no_capacity", "src/impls.rs",
  "let mut vec = Vec::with_capacity(seq.len());", "let mut vec = Vec::new();", "all"),
 ("benign_unknown_value_wording", "src/errors/json.rs",
  "\"Unknown value `{}`{location}: {}expected one of {}\"", "\"The value `{}`{location} is not known: {}it must be one of {}\"", "all"),
]

PROPS = ["C01","C02","C03","C04","C05","C06","C07","C08","C09","C10","C11","C12","C13","C14","C15","C17","C18","C19"]  # C16 / C20 have their own build paths: see seeded_eval.py

def sh(cmd, **kw):
    return subprocess.run(cmd, shell=True, capture_output=True, text=True, **kw)

def prepare():
    os.makedirs(SCR, exist_ok=True)
    sh(f"rsync -a --delete --exclude target /repo/ {MREPO}/")
    # rsync restores old mtimes: cargo would take a stale artifact of the previous mutant for fresh
    sh(f"find {MREPO}/src {MREPO}/derive/src -name '*.rs' -exec touch {{}} +")
    sh(f"rsync -a --delete --exclude target /verif/harness/ {MH}/")
    sh(f"sed -i 's#path = \"/repo\"#path = \"{MREPO}\"#' {MH}/Cargo.toml {MH}/http/Cargo.toml")
    sh(f"sed -i 's#target-dir = \"/verif/target\"#target-dir = \"{SCR}/target\"#' {MH}/.cargo/config.toml")
    os.makedirs(OUT, exist_ok=True)
    if os.path.exists('/verif/known_findings.json'):
        shutil.copy('/verif/known_findings.json', OUT)
    r = sh(f"cd {MH} && cargo build -q -p dv_gen && {SCR}/target/debug/dv_gen 1 generated/src/types.rs && cargo build -q -p dv_check")
    if r.returncode != 0:
        print(r.stderr[-3000:]); sys.exit(2)

def run_props(props):
    os.makedirs(f"{OUT}/work", exist_ok=True)
    sh(f"python3 /verif/tools/mkdict.py {MREPO} {OUT}/work/dict.json")
    res = {}
    for p in props:
        env = dict(os.environ, VERIF_DIR=OUT, VERIF_SEED="1")
        r = subprocess.run([f"{SCR}/target/debug/dv_check", p, "quick"], capture_output=True, text=True, env=env)
        sigs = [l.strip()[len("signature: "):] for l in r.stdout.splitlines() if l.strip().startswith("signature: ")]
        res[p] = {"exit": r.returncode, "signatures": sigs[:6]}
    return res

def main():
    want = sys.argv[1:]
    prepare()
    base = run_props(PROPS)
    bad = {p: v for p, v in base.items() if v["exit"] != 0}
    if bad:
        print("BASELINE NOT SILENT:", bad)
    results = {"baseline": base, "mutants": {}}
    if want and os.path.exists("/verif/tools/mutation_matrix.json"):
        old = json.load(open("/verif/tools/mutation_matrix.json"))
        results["mutants"] = old.get("mutants", {})
    for name, f, old, new, expect in MUTANTS:
        if want and name not in want: continue
        if old == new: continue
        path = f"{MREPO}/{f}"
        s = open(path).read()
        if s.count(old) < 1:
            print(f"!! {name}: pattern not found"); results["mutants"][name] = {"error": "pattern not found"}; continue
        open(path, "w").write(s.replace(old, new, 1))
        t = time.time()
        r = sh(f"cd {MH} && cargo build -q -p dv_check")
        if r.returncode != 0:
            print(f"!! {name}: does not compile\n{r.stderr[-1500:]}")
            results["mutants"][name] = {"error": "does not compile"}
        else:
            res = run_props(PROPS)
            caught = [p for p, v in res.items() if v["exit"] == 1]
            infra = [p for p, v in res.items() if v["exit"] not in (0, 1)]
            missed = [p for p in expect if p not in caught and p in PROPS]
            print(f"{name}: caught by {caught}; expected {expect}; MISSED {missed}; infra {infra}  ({time.time()-t:.0f}s)")
            results["mutants"][name] = {"file": f, "caught_by": caught, "expected": expect, "missed": missed, "infra": infra,
                                         "signatures": {p: res[p]["signatures"] for p in caught}}
        open(path, "w").write(s)
        json.dump(results, open("/verif/tools/mutation_matrix.json", "w"), indent=1)
    # ---- benign changes: any firing check is a false alarm of the harness
    if not want or "benign" in want:
        fa = {}
        for name, f, old, new, mode in BENIGN:
            path = f"{MREPO}/{f}"
            src = open(path).read()
            if src.count(old) < 1:
                print(f"!! {name}: pattern not found"); fa[name] = {"error": "pattern not found"}; continue
            open(path, "w").write(src.replace(old, new) if mode == "all" else src.replace(old, new, 1))
            r = sh(f"cd {MH} && cargo build -q -p dv_check")
            if r.returncode != 0:
                print(f"!! {name}: does not compile\n{r.stderr[-1200:]}"); fa[name] = {"error": "does not compile"}
            else:
                res = run_props(PROPS)
                fired = {p: v["signatures"][:3] for p, v in res.items() if v["exit"] != 0}
                print(f"{name}: {'silent' if not fired else 'FALSE ALARM ' + json.dumps(fired)}")
                fa[name] = {"file": f, "fired": fired}
            open(path, "w").write(src)
        results["benign"] = fa
        json.dump(results, open("/verif/tools/mutation_matrix.json", "w"), indent=1)
    print("done")

main()
