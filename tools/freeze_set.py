#!/usr/bin/env python3
"""Freeze a generated program set: types.rs of dv_gen -> harness/frozen/src/types.rs (G<n> -> F<n>),
and rewrite saved regression cases over those generated types to refer to the frozen names.
usage: freeze_set.py <types.rs written by dv_gen> [--rewrite-replays]"""
import glob, json, os, re, sys

ROOT = os.environ.get("FREEZE_ROOT", "/verif")

def ren(s):
    s = re.sub(r"\bG(\d+)\b", r"F\1", s)
    s = re.sub(r"\bconv_g(\d+)\b", r"conv_f\1", s)
    s = re.sub(r"\bSRC_G(\d+)\b", r"SRC_F\1", s)
    return s

src = open(sys.argv[1]).read()
out = ren(src).replace(', "gen")', ', "frozen")')
open(f"{ROOT}/harness/frozen/src/types.rs", "w").write(out)
if "--rewrite-replays" in sys.argv:
    n = 0
    for f in glob.glob(f"{ROOT}/replays/regressions/*.json") + glob.glob(f"{ROOT}/replays/found-before-fix/*.json"):
        j = json.load(open(f))
        c = j.get("case")
        if isinstance(c, dict) and c.get("origin") == "gen" and c.get("type_source", "").strip() in src:
            c["type"] = ren(c["type"])
            c["type_source"] = ren(c["type_source"])
            c["origin"] = "frozen"
            json.dump(j, open(f, "w"), indent=2)
            n += 1
    print("rewritten", n)
