#!/usr/bin/env python3
"""Re-evaluate kept seeded changes (/verif/seeded/<id>/) with the current harness.
usage: reeval_seeded.py [--lanes K --lane k] [<seed-id> ...]     (default: all; SE_DIR as for seeded_eval.py)
Stages each change the way a sub-agent delivered it and calls seeded_eval.py, which works on scratch copies only."""
import os, re, shutil, subprocess, sys

args = sys.argv[1:]
lanes, lane = 1, 0
if "--lanes" in args:
    i = args.index("--lanes"); lanes = int(args[i + 1]); del args[i:i + 2]
if "--lane" in args:
    i = args.index("--lane"); lane = int(args[i + 1]); del args[i:i + 2]
ids = args or sorted(os.listdir("/verif/seeded"))
ids = [s for k, s in enumerate(ids) if k % lanes == lane]
SE = os.environ.get("SE_DIR", "/tmp/se")
for sid in ids:
    d = f"/verif/seeded/{sid}"
    if not os.path.exists(f"{d}/patch.diff"):
        continue
    n = "1"
    if os.path.exists(f"{d}/demo.sh"):
        m = re.search(r"demo(\d)\.rs", open(f"{d}/demo.sh").read())
        n = m.group(1) if m else "1"
    st = f"{SE}/stage"
    shutil.rmtree(st, ignore_errors=True)
    os.makedirs(st)
    shutil.copy(f"{d}/patch.diff", f"{st}/patch{n}.diff")
    shutil.copy(f"{d}/demo.rs", f"{st}/demo{n}.rs")
    if os.path.exists(f"{d}/demo.sh"):
        shutil.copy(f"{d}/demo.sh", f"{st}/demo{n}.sh")
    shutil.copy(f"{d}/meta.json", f"{st}/meta{n}.json")
    r = subprocess.run(["python3", "/verif/tools/seeded_eval.py", st, n, sid], capture_output=True, text=True)
    for l in r.stdout.splitlines():
        if re.match(r"^C\d+(w\d)?-\d:", l) or l.startswith("    "):
            print(l, flush=True)
    if r.returncode:
        print(sid, "seeded_eval exit", r.returncode, r.stdout[-300:], r.stderr[-300:], flush=True)
