#!/usr/bin/env python3
"""Run every quick check against a change that is meant to PRESERVE all properties (false-alarm test).
usage: benign_eval.py <agent-out-dir> <N> <id>     (SE_DIR as for seeded_eval.py)
Confirms that the change compiles and the repository's tests pass, then runs the 20 quick checks against
it in a scratch copy; a confirmed change is stored under /verif/benign/<id>/ with the list of checks that fired."""
import json, os, shutil, subprocess, sys, time

SE = os.environ.get("SE_DIR", "/tmp/se")
WT = f"{SE}/wt"; MH = f"{SE}/harness"; OUT = f"{SE}/out"
PROPS = [f"C{i:02d}" for i in range(1, 21)]

def sh(cmd, cwd=None, timeout=3600):
    return subprocess.run(cmd, shell=True, capture_output=True, text=True, cwd=cwd, timeout=timeout)

def prepare():
    os.makedirs(SE, exist_ok=True)
    if not os.path.exists(WT):
        r = sh(f"git -C /repo worktree add -q --detach {WT} HEAD")
        if r.returncode: print(r.stderr); sys.exit(2)
    else:
        sh("git checkout -q -- . && git clean -qfd tests", cwd=WT)
    sh(f"rsync -a --delete --exclude target --exclude fuzz /verif/harness/ {MH}/")
    sh(f"sed -i 's#path = \"/repo\"#path = \"{WT}\"#' {MH}/Cargo.toml {MH}/http/Cargo.toml")
    sh(f"sed -i 's#target-dir = \"/verif/target\"#target-dir = \"{SE}/target\"#' {MH}/.cargo/config.toml")
    os.makedirs(OUT, exist_ok=True)
    sh(f"rsync -a --delete --exclude target /verif/c16/ {OUT}/c16/")
    sh(f"sed -i 's#path = \"/repo\"#path = \"{WT}\"#' {OUT}/c16/Cargo.toml")
    sh(f"sed -i 's#target-dir = \"/verif/target/c16\"#target-dir = \"{SE}/target_c16\"#' {OUT}/c16/.cargo/config.toml")
    shutil.copy('/verif/known_findings.json', OUT)
    shutil.rmtree(f"{OUT}/replays", ignore_errors=True)
    shutil.copytree('/verif/replays', f"{OUT}/replays")

def main():
    outdir, n, bid = sys.argv[1], sys.argv[2], sys.argv[3]
    patch = f"{outdir}/patch{n}.diff"; meta_src = f"{outdir}/meta{n}.json"
    prepare()
    r = sh(f"git apply {patch}", cwd=WT)
    if r.returncode:
        print(f"{bid}: patch does not apply: {r.stderr[-300:]}"); sys.exit(1)
    r = sh("cargo test --workspace --no-fail-fast --offline 2>&1", cwd=WT)
    p = f = 0
    for l in r.stdout.splitlines():
        if l.startswith("test result:"):
            w = l.split(); p += int(w[3]); f += int(w[5])
    suite_ok = r.returncode == 0 and f == 0 and p >= 45
    os.makedirs(f"{OUT}/work", exist_ok=True)
    sh(f"python3 /verif/tools/mkdict.py {WT} {OUT}/work/dict.json")
    b = sh(f"cargo build -q -p dv_gen && {SE}/target/debug/dv_gen 1 generated/src/types.rs && cargo build -q -p dv_check && cargo build -q -p dv_http", cwd=MH)
    res = {}
    if b.returncode:
        res = {"build_error": b.stderr[-1500:]}
    else:
        for prop in PROPS:
            env = dict(os.environ, VERIF_DIR=OUT, VERIF_SEED="1")
            binary = "dv_http" if prop == "C20" else "dv_check"
            rr = subprocess.run([f"{SE}/target/debug/{binary}", prop, "quick"], capture_output=True, text=True, env=env)
            sigs = [l.strip()[len("signature: "):] for l in rr.stdout.splitlines() if l.strip().startswith("signature: ")]
            dets = [l.strip()[len("details: "):][:700] for l in rr.stdout.splitlines() if l.strip().startswith("details: ")]
            res[prop] = {"exit": rr.returncode, "signatures": sigs[:4], "details": dets[:2]}
    fired = [k for k, v in res.items() if isinstance(v, dict) and v.get("exit") != 0]
    sh("git checkout -q -- . && git clean -qfd tests", cwd=WT)
    d = f"/verif/benign/{bid}"
    os.makedirs(d, exist_ok=True)
    shutil.copy(patch, f"{d}/patch.diff")
    meta = json.load(open(meta_src)) if os.path.exists(meta_src) else {}
    meta.update({"id": bid, "suite_with_change": {"passed": p, "failed": f, "ok": suite_ok}, "checks_that_fired": {k: res[k] for k in fired}, "build_error": res.get("build_error")})
    json.dump(meta, open(f"{d}/meta.json", "w"), indent=1)
    print(f"{bid}: suite_ok={suite_ok} ({p} passed, {f} failed) fired={fired}")
    for k in fired:
        print("   ", k, res[k]["signatures"][:2], (res[k]["details"] or [""])[0][:400])

main()
