#!/usr/bin/env python3
"""Promote the shrunk cases with which the checks caught the seeded changes (seeded/<id>/replays) to the
replay tier (replays/regressions), after confirming that each HOLDS on the unchanged tree."""
import glob, json, os, shutil, subprocess, sys
os.chdir('/verif')
env = dict(os.environ, VERIF_DIR='/verif', VERIF_SEED='1')
kept = dropped = 0
types_rs = open('/verif/harness/generated/src/types.rs').read()
for d in sorted(glob.glob('/verif/seeded/*/replays') + glob.glob('/verif/seeded/*/replays_own')):
    sid = os.path.basename(os.path.dirname(d))
    per_prop = {}
    for f in sorted(glob.glob(d + '/*.json')):
        try: j = json.load(open(f))
        except Exception: continue
        prop = j.get('property')
        if prop in (None, 'C16', 'C20'): continue
        if per_prop.get(prop, 0) >= 3: continue
        c = j.get('case', {})
        # cases over the per-seed generated program set would go stale with the next generator change:
        # only cases over std, hand-written and FROZEN generated types are promoted
        if isinstance(c, dict) and c.get('origin') == 'gen':
            dropped += 1; continue
        r = subprocess.run(['/verif/target/debug/dv_check', '--replay', f], capture_output=True, text=True, env=env)
        if r.returncode != 0:
            dropped += 1   # does not hold / not decodable with the current program set
            continue
        per_prop[prop] = per_prop.get(prop, 0) + 1
        name = f"{prop}-{sid}-{os.path.basename(f).split('-',1)[1]}"
        j['found_under_seeded_change'] = sid
        json.dump(j, open(f'/verif/replays/regressions/{name}', 'w'), indent=1)
        kept += 1
print(f"promoted {kept} case(s); {dropped} not promoted (per-seed program set or not holding on the unchanged tree)")
