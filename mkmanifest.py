#!/usr/bin/env python3
"""Regenerates MANIFEST.json from the table below (keeps it schema-valid at all times)."""
import json, sys

CHECKS = {
 "C01": ("proptest-driven generation of (type, payload, source, answer script) with a recording scripted error type; invariant over the recorded history (conservation of report ids)",
         "Samples the four axes the property quantifies over (types incl. random derive inputs, payloads with injected faults, two value sources, Continue/Break answer sequences); every case is judged by an exact, model-free conservation law, so any container that drops, duplicates or invents a report on an exercised path is caught.",
         "Rec keeps every id it is handed; ids are issued per error()/foreign merge() call. Absence is not established: sampled, not exhaustive.", "DESIGN.md §6 C01"),
 "C03": ("proptest-driven generation + exhaustive enumeration of every switch position k per case; trace-prefix equality and post-stop invariant; differential against JsonError/QueryParamError rendering of the first keep-going report",
         "For each generated (type, payload, source) ALL Continue^k-then-Break scripts are run and compared with the keep-going history, plus arbitrary scripts; the fail-fast built-in error types are compared with the first keep-going report re-rendered through their public API.",
         "'Nothing further is examined' is observed through visits of the instrumented source and probe calls only.", "DESIGN.md §6 C03"),
 "C04": ("proptest-driven generation; model-free truth check of every report against the payload at its location, and producer rule for hand-over locations",
         "Every report of every generated run is resolved in the original payload and checked for truth; every hand-over location is checked to be the child's own position. Faults are injected at every index/key, not only the first.",
         "For the serde_json source the payload is judged in serde_json's view (sorted, de-duplicated keys).", "DESIGN.md §6 C04"),
 "C12": ("proptest-driven adversarial generation (type-blind, deep nests to 128, duplicate keys, non-finite floats, arbitrary scripts) with catch_unwind around deserialize",
         "Totality is sampled broadly: every catalogue type against well-typed, ill-typed, blind and pathological payloads through both sources, Rec with arbitrary scripts, JsonError and QueryParamError.",
         "Stack exhaustion deeper than serde_json's own limit is out of scope; absence of panics is sampled, not proven.", "DESIGN.md §6 C12"),
 "C15": ("proptest-driven generation + exhaustive permutations of every small object; metamorphic relation (outcome invariant under member permutation) through an order-preserving value source",
         "All permutations of each object with <= 4 members (one at a time) and random global permutations are run for every generated case and compared on value and report multiset.",
         "Duplicate keys and keys colliding after parsing are excluded (order-dependent by nature).", "DESIGN.md §6 C15"),
 # id: (technique, level text, level note, design ref)
 "C17": ("exhaustive enumeration + random sequences (proptest RNG); metamorphic (order/multiplicity) and exact-cover oracle",
         "Every kind sequence up to length 5 is enumerated (exhaustive: any dependence on order or multiplicity among <=5 entries, and any wrong phrase for any of the 255 non-empty sets, is found); longer sequences are sampled.",
         "Singleton outputs of the function are taken as the names of the individual kinds; the join grammar and the literals 'a number' / 'an integer' come from the property statement.", "DESIGN.md §6 C17"),
 "C18": ("exhaustive pair enumeration + random multi-candidate lists; differential against an independent Damerau-Levenshtein reference (itself cross-checked by BFS)",
         "All (received, candidate) pairs over a 3-letter alphabet up to length 6 are enumerated; threshold-length, multi-byte and multi-candidate cases are sampled. Finds any budget off-by-one, wrong distance, wrong tie-break.",
         "Reference distance is unrestricted Damerau-Levenshtein over chars; budget thresholds are read from the property statement (byte length).", "DESIGN.md §6 C18"),
 "C19": ("exhaustive path enumeration + random long paths; round-trip oracle (pushed steps vs owned path / first / last key)",
         "All paths up to 6 steps over a small alphabet are enumerated, long random paths sampled.",
         "The owned path's components are compared through their derived Debug form (the component type is not nameable outside the crate).", "DESIGN.md §6 C19"),
}
NOT_YET = {
}

def main():
    props = [json.loads(l) for l in open('/verif/properties.jsonl')]
    checks = []
    na = []
    for p in props:
        pid = p['id']
        if pid in CHECKS:
            tech, text, note, ref = CHECKS[pid]
            checks.append({
                "property_id": pid,
                "quick_cmd": f"./run.sh {pid} quick",
                "thorough_cmd": f"./run.sh {pid} thorough",
                "evidence_file": f"/verif/evidence/{pid}.json",
                "replay_cmd_template": "./run.sh --replay {path}",
                "engine": "dv_harness",
                "level_claimed": {"category": "exploration", "text": text, "design_ref": ref},
                "level_note": note,
                "technique": tech,
            })
        else:
            na.append({"property_id": pid, "reason": NOT_YET.get(pid, "check not built yet in this revision of /verif (work in progress; the technique applies, see DESIGN.md §6)")})
    m = {
        "version": 1,
        "setup_cmd": "./setup.sh",
        "hooks": {
            "guard": "none",
            "enable": "no hooks: every observation point the properties name is public API of deserr (deserialize, DeserializeError, MergeWithError, IntoValue, ValuePointerRef, errors::*, extractors); checks build /repo as a path dependency",
            "baseline_off_cmd": "cd /repo && cargo test --workspace --no-fail-fast --offline",
            "source_commits": [],
            "add_only": True,
        },
        "engines": [
            {"name": "dv_harness", "path": "/verif/harness", "serves_properties": [c["property_id"] for c in checks],
             "kind_free_text": "Rust workspace: proptest-driven generators with custom shrinking ValueTrees, recording error type, instrumented value source, reference interpreter, exhaustive enumerators; libFuzzer targets in harness/fuzz for thorough tiers"},
        ],
        "checks": checks,
        "notes": "Exit codes: 0 held / 1 VIOLATION line printed / 2 infrastructure (build failure, killed) - never reported as violation. VERIF_SEED selects all random choices.",
        "not_applicable": na,
    }
    json.dump(m, open('/verif/MANIFEST.json', 'w'), indent=1)
    print("MANIFEST.json:", len(checks), "checks,", len(na), "not_applicable")

main()
