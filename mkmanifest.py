#!/usr/bin/env python3
"""Regenerates MANIFEST.json from the table below (keeps it schema-valid at all times)."""
import json, sys

CHECKS = {
 "C20": ("proptest-driven generation of HTTP requests (bodies, content types, query strings); differential against the framework's own extractor composed with deserr::deserialize, in-process on a current-thread runtime",
         "Valid, ill-typed, arbitrary and malformed bodies with right and wrong content types through AwebJson and AxumJson (with JsonError and with a custom error type rendered as 422 + JSON body; the actix error must downcast to the very deserr error), and query strings through AwebQueryParameter, for five targets; all outcome classes (value / deserr failure / framework rejection) must be populated or the run is inconclusive (exit 2).",
         "Requests are built with actix_web::test::TestRequest and http::Request; sockets, payload size limits and app-level configuration are not exercised. serde_urlencoded never rejects a query string, so the query extractor has no framework-rejection class.", "DESIGN.md §6 C20"),
 "C14": ("proptest-driven generation of failing payloads over plain-key types; containment oracle tying the JsonError / QueryParamError text to the first report of the keep-going run, path read-back",
         "For every generated failing payload the message of both built-in error types must contain the independently rendered path of the first keep-going report, the per-kind facts (value as JSON text, field, key/value with all alternatives, reference did-you-mean suggestion, lengths, detail message) and, for JsonError, the path read back from the message must resolve to the quoted value.",
         "Keys restricted to [A-Za-z0-9_]; facts checked by containment, so rewording does not raise an alarm.", "DESIGN.md §6 C14"),
 "C16": ("grammar-based generation of derive inputs (programs), each poisoned with one rejection cause, compiled in batches with cargo check --message-format=json; oracle: a code-less error diagnostic attributed to the item; batch delta-debugging",
         "Samples the product cause x level x one/two attributes x base shape (95 combinations reached in the thorough tier); a control batch proves the unpoisoned grammar compiles cleanly; a poisoned item without a derive diagnostic is the 'silently dropped or overrode' case.",
         "Derive-issued diagnostics are recognised by the absence of an rustc error code; items are attributed by span line.", "DESIGN.md §6 C16"),
 "C02": ("proptest-driven generation, differential against a reference interpreter of the documented semantics (multiset of reports, examined payload nodes)",
         "Every generated (type, payload) is interpreted independently of deserr; the multiset of reports made (kind, location, structured content) under an always-Continue error type must match, the reports HELD BY THE RETURNED ERROR must be the same multiset, and every node the interpreter says must be examined was examined. Types include ~40 random derive inputs per seed.",
         "Only as good as the interpreter (DESIGN.md Appendix A, transcribed from docs and property statements); free-text messages matched by containment.", "DESIGN.md §6 C02"),
 "C05": ("exhaustive enumeration of integers x 30 scalar targets x 2 sources + proptest-driven random scalars; differential against independent i128/u128 arithmetic and exact-decimal float conversion",
         "All integers in [-70000,70000] and all 2^k (+-1) boundaries are enumerated for every scalar target through both sources (exhaustive for that range); random u64/i64/floats/strings sampled.",
         "Float reference = std's correctly rounded parser on the exact decimal expansion; messages matched by containment of number and bound.", "DESIGN.md §6 C05"),
 "C06": ("proptest-driven generation over the container cross product, differential against the reference interpreter restricted to structure (order, arity, None-iff-null, set/map semantics, key parsing)",
         "Container shapes x element types x lengths 0..6 incl. arity+-1, duplicate elements, colliding/unparsable keys; value and arity/key reports compared with the interpreter.",
         "Key parsing reference is std's FromStr; colliding keys compare success/failure only.", "DESIGN.md §6 C06"),
 "C07": ("random derive-input generator (programs) x alias-key payload generator; differential against the harness' own effective-key rule",
         "Random derive inputs (rename / rename_all at container and variant level, skip/default/from in any declaration order) with payloads holding well-typed values under non-effective aliases; value, reports and consumed nodes compared.",
         "Identifier shapes restricted so that camelCase has one reading; effective keys computed by dv_gen, never by deserr.", "DESIGN.md §6 C07"),
 "C08": ("random derive-input generator x delete/null/corrupt subset payload generator; differential against the reference interpreter restricted to missing/default/skip",
         "Random types mixing default / default = expr / skip / missing_field_error / map / Option; random subsets of keys deleted, nulled or corrupted at every struct site.",
         "As C07.", "DESIGN.md §6 C08"),
 "C09": ("random derive-input generator x extra-key payload generator; differential (deny) and metamorphic (no deny: outcome invariant under adding/removing unknown keys)",
         "Extra keys incl. near-misses, skipped-field names and tag look-alikes at every struct site; exact UnknownKey reports with accepted list in declaration order, or complete indifference.",
         "As C07.", "DESIGN.md §6 C09"),
 "C10": ("random enum generator x tag manipulation generator; differential against exact-match dispatch",
         "Every variant name, identifier, case variation, near-miss, non-string and absent tag against random tagged and unit-only enums.",
         "As C07.", "DESIGN.md §6 C10"),
 "C11": ("call-logging probe functions in random derive inputs; differential of the logged call multiset and failure reports against the reference interpreter",
         "from / try_from (by value, by reference) / map / validate / field-level error types at field and container level with payloads failing any subset of stages.",
         "Probe failure rules are pure functions of the argument known to the interpreter.", "DESIGN.md §6 C11"),
 "C13": ("exhaustive enumeration of small JSON documents + random documents + number literals; round-trip and kind-consistency oracles, number class decided from the printed form",
         "All documents with <= 4 nodes over 21 boundary leaves are enumerated; random nested documents and ~1500 number literals sampled.",
         "Float values of literals are whatever serde_json holds (its text-to-float conversion is not deserr's).", "DESIGN.md §6 C13"),
 "C01": ("proptest-driven generation of (type, payload, source, answer script) with a recording scripted error type; invariant over the recorded history (conservation of report ids)",
         "Samples the four axes the property quantifies over (types incl. random derive inputs, payloads with injected faults, two value sources, Continue/Break answer sequences); every case is judged by an exact, model-free conservation law, so any container that drops, duplicates or invents a report on an exercised path is caught.",
         "Rec keeps every id it is handed; ids are issued per error()/foreign merge() call. Absence is not established: sampled, not exhaustive.", "DESIGN.md §6 C01"),
 "C03": ("proptest-driven generation + exhaustive enumeration of every switch position k per case; trace-prefix equality and post-stop invariant; differential against JsonError/QueryParamError rendering of the first keep-going report",
         "For each generated (type, payload, source) ALL Continue^k-then-Break scripts are run and compared with the keep-going history, plus arbitrary scripts; the fail-fast built-in error types are compared with the first keep-going report re-rendered through their public API.",
         "'Nothing further is examined' is observed through visits of the instrumented source and probe calls only.", "DESIGN.md §6 C03"),
 "C04": ("proptest-driven generation; model-free truth check of every report against the payload at its location, and producer rule for hand-over locations",
         "Every report of every generated run is resolved in the original payload and checked for truth; every hand-over location is checked to be the child's own position. Faults are injected at every index/key, not only the first.",
         "For the serde_json source the payload is judged in serde_json's view (sorted, de-duplicated keys).", "DESIGN.md §6 C04"),
 "C12": ("proptest-driven adversarial generation (type-blind, deep nests to 128, duplicate keys, non-finite floats, arbitrary scripts) with catch_unwind around deserialize",
         "Totality is sampled broadly: every catalogue type against well-typed, ill-typed, blind and pathological payloads through both sources, Rec with arbitrary scripts, JsonError and QueryParamError.",
         "Stack exhaustion deeper than serde_json's own limit is out of scope; absence of panics is sampled, not proven.", "DESIGN.md §6 C12"),
 "C15": ("proptest-driven generation + exhaustive permutations of every small object; metamorphic relation (outcome invariant under member permutation) through an order-preserving value source",
         "All permutations of each object with <= 4 members (one at a time) and random global permutations are run for every generated case and compared on value and report multiset.",
         "Duplicate keys and keys colliding after parsing are excluded (order-dependent by nature).", "DESIGN.md §6 C15"),
 # id: (technique, level text, level note, design ref)
 "C17": ("exhaustive enumeration + random sequences (proptest RNG); metamorphic (order/multiplicity) and exact-cover oracle",
         "Every kind sequence up to length 5 is enumerated (exhaustive: any dependence on order or multiplicity among <=5 entries, and any wrong phrase for any of the 255 non-empty sets, is found); longer sequences are sampled.",
         "Singleton outputs of the function are taken as the names of the individual kinds; the join grammar and the literals 'a number' / 'an integer' come from the property statement.", "DESIGN.md §6 C17"),
 "C18": ("exhaustive pair enumeration + random multi-candidate lists; differential against an independent Damerau-Levenshtein reference (itself cross-checked by BFS)",
         "All (received, candidate) pairs over a 3-letter alphabet up to length 6 are enumerated; threshold-length, multi-byte and multi-candidate cases are sampled. Finds any budget off-by-one, wrong distance, wrong tie-break.",
         "Reference distance is unrestricted Damerau-Levenshtein over chars; budget thresholds are read from the property statement (byte length).", "DESIGN.md §6 C18"),
 "C19": ("exhaustive path enumeration + random long paths; round-trip oracle (pushed steps vs owned path / first / last key)",
         "All paths up to 6 steps over a small alphabet are enumerated, long random paths sampled.",
         "The owned path's components are compared through their derived Debug form (the component type is not nameable outside the crate).", "DESIGN.md §6 C19"),
}
NOT_YET = {
}

def main():
    props = [json.loads(l) for l in open('/verif/properties.jsonl')]
    checks = []
    na = []
    for p in props:
        pid = p['id']
        if pid in CHECKS:
            tech, text, note, ref = CHECKS[pid]
            if pid in ("C01","C02","C03","C04","C06","C07","C08","C09","C10","C11","C12","C14","C15"):
                text += " Thorough tier: the same over 4 independently generated program sets (dv_gen seeds VERIF_SEED + 1000*k) with ~10x the cases."
            if pid in ("C01","C02","C03","C04","C12"):
                text += " Thorough also runs a coverage-guided libFuzzer campaign (target oracle_payload: the fuzzer's bytes are the decision stream of the type-directed generator; the oracle of this property is evaluated inside the target)."
                tech += "; libFuzzer stage (cargo-fuzz) in the thorough tier"
            if pid == "C13":
                text += " Thorough also runs a libFuzzer campaign over raw JSON text (target json_bridge)."
                tech += "; libFuzzer stage in the thorough tier"
            if pid == "C18":
                text += " Thorough also runs a libFuzzer campaign (target did_you_mean)."
                tech += "; libFuzzer stage in the thorough tier"
            checks.append({
                "property_id": pid,
                "quick_cmd": f"./run.sh {pid} quick",
                "thorough_cmd": f"./run.sh {pid} thorough",
                "evidence_file": f"/verif/evidence/{pid}.json",
                "replay_cmd_template": "./run.sh --replay {path}",
                "engine": "dv_harness",
                "level_claimed": {"category": "exploration", "text": text, "design_ref": ref},
                "level_note": note,
                "technique": tech,
            })
        else:
            na.append({"property_id": pid, "reason": NOT_YET.get(pid, "check not built yet in this revision of /verif (work in progress; the technique applies, see DESIGN.md §6)")})
    m = {
        "version": 1,
        "setup_cmd": "./setup.sh",
        "hooks": {
            "guard": "none",
            "enable": "no hooks: every observation point the properties name is public API of deserr (deserialize, DeserializeError, MergeWithError, IntoValue, ValuePointerRef, errors::*, extractors); checks build /repo as a path dependency",
            "baseline_off_cmd": "cd /repo && cargo test --workspace --no-fail-fast --offline",
            "source_commits": [],
            "add_only": True,
        },
        "engines": [
            {"name": "dv_harness", "path": "/verif/harness", "serves_properties": [c["property_id"] for c in checks],
             "kind_free_text": "Rust workspace: proptest-driven generators with custom shrinking ValueTrees, recording error type, instrumented value source, reference interpreter, exhaustive enumerators; libFuzzer targets in harness/fuzz for thorough tiers"},
        ],
        "checks": checks,
        "notes": "Exit codes: 0 held / 1 VIOLATION line printed / 2 infrastructure (build failure, killed) - never reported as violation. VERIF_SEED selects all random choices.",
        "not_applicable": na,
    }
    json.dump(m, open('/verif/MANIFEST.json', 'w'), indent=1)
    print("MANIFEST.json:", len(checks), "checks,", len(na), "not_applicable")

main()
