#!/bin/bash
# Entry point of every check.
#   ./run.sh <Cnn> <quick|thorough>      run the check of one property (exit 0 / 1 / 2)
#   ./run.sh --replay <file>             re-run one saved case without the generators
# Always rebuilds from /repo's current working tree (cargo fingerprints path = "/repo").
set -u
orig_pwd="$(pwd)"
cd "$(dirname "$0")"
export CARGO_NET_OFFLINE=true
export VERIF_DIR="$(pwd)"
export VERIF_SEED="${VERIF_SEED:-1}"
# one build directory, wherever this copy of /verif lives
export CARGO_TARGET_DIR="$VERIF_DIR/target"
mkdir -p work/bin work/log evidence replays
if [ $# -lt 2 ]; then echo "usage: $0 <Cnn> <quick|thorough> | --replay <file>" >&2; exit 2; fi
prop="$1"; arg="$2"
if [ "$prop" = "--replay" ]; then
  # a relative path is relative to the caller's directory (or to /verif)
  case "$arg" in /*) ;; *) if [ -e "$orig_pwd/$arg" ]; then arg="$orig_pwd/$arg"; else arg="$VERIF_DIR/$arg"; fi ;; esac
  prop=$(python3 -c 'import json,sys; print(json.load(open(sys.argv[1]))["property"])' "$arg" 2>/dev/null) || { echo "cannot read replay file" >&2; exit 2; }
  mode=replay
else
  mode=check
fi
case "$prop" in
  C20) pkg=dv_http; bin=dv_http ;;
  *)   pkg=dv_check; bin=dv_check ;;
esac
# source-derived dictionary of literals for the generators (a pure function of /repo's working tree)
python3 tools/mkdict.py /repo work/dict.json 2>/dev/null || true
log="work/log/build.$prop.$$.log"
# thorough runs of the properties that use generated derive inputs go over several program sets
rounds=1
if [ "$mode" = check ] && [ "$arg" = thorough ]; then
  case "$prop" in C01|C02|C03|C04|C06|C07|C08|C09|C10|C11|C12|C14|C15) rounds="${VERIF_PROGRAM_SETS:-4}" ;; esac
fi
rc=0
for round in $(seq 0 $((rounds-1))); do
  exec 9> work/build.lock
  flock 9
  (
    cd harness || exit 2
    if [ "$pkg" = dv_check ]; then
      # (re)generate the random derive inputs for this seed, then build
      cargo build -q -p dv_gen >"../$log" 2>&1 || exit 2
      if [ "$mode" = replay ]; then
        gseed=$(python3 -c 'import json,sys; print(json.load(open(sys.argv[1])).get("case",{}).get("program_seed", json.load(open(sys.argv[1])).get("seed", 1)))' "$arg")
      else
        gseed=$((VERIF_SEED + 1000*round))
      fi
      "$CARGO_TARGET_DIR/debug/dv_gen" "$gseed" generated/src/types.rs >>"../$log" 2>&1 || exit 2
    fi
    cargo build -q -p "$pkg" >>"../$log" 2>&1 || exit 2
    cp "$CARGO_TARGET_DIR/debug/$bin" "../work/bin/$bin.$$" || exit 2
  )
  brc=$?
  flock -u 9
  if [ $brc -ne 0 ]; then
    echo "INFRASTRUCTURE: build failed (see $log)" >&2
    tail -30 "$log" >&2
    exit 2
  fi
  rm -f "$log"
  if [ "$mode" = replay ]; then
    "work/bin/$bin.$$" --replay "$arg"; rc=$?
  else
    # watchdog: a run that does not end is an infrastructure problem (exit 2), never a verdict
    if [ "$arg" = quick ]; then wd=${VERIF_WATCHDOG_S:-2400}; else wd=${VERIF_WATCHDOG_S:-14400}; fi
    DV_ROUND=$round DV_ROUNDS=$rounds timeout --signal=KILL "$wd" "work/bin/$bin.$$" "$prop" "$arg"; rc=$?
  fi
  rm -f "work/bin/$bin.$$"
  # anything but 0/1 (signal, abort, harness panic) is an infrastructure problem
  if [ $rc -ne 0 ] && [ $rc -ne 1 ]; then echo "INFRASTRUCTURE: check process ended with status $rc" >&2; exit 2; fi
  [ $rc -eq 1 ] && break
done
# thorough tier: coverage-guided fuzz stage with the semantic oracle inside the target
if [ "$mode" = check ] && [ "$arg" = thorough ] && { [ $rc -eq 0 ] || [ $rc -eq 1 ]; }; then
  case "$prop" in
    C01|C02|C03|C04|C12) tools/fuzz_stage.sh "$prop" oracle_payload "${VERIF_FUZZ_RUNS:-1500000}"; frc=$? ;;
    C13) tools/fuzz_stage.sh "$prop" json_bridge "${VERIF_FUZZ_RUNS:-3000000}"; frc=$? ;;
    C18) tools/fuzz_stage.sh "$prop" did_you_mean "${VERIF_FUZZ_RUNS:-3000000}"; frc=$? ;;
    *) frc=0 ;;
  esac
  [ $frc -eq 1 ] && rc=1
fi
exit $rc
