#!/bin/bash
# MANIFEST.setup_cmd: offline warm-up build of the harness (nothing is fetched).
set -u
cd "$(dirname "$0")"
export CARGO_NET_OFFLINE=true
export CARGO_TARGET_DIR="$(pwd)/target"
mkdir -p work/bin work/log evidence replays
python3 tools/mkdict.py /repo work/dict.json || true
cd harness
cargo build -q -p dv_gen || exit 1
"$CARGO_TARGET_DIR/debug/dv_gen" "${VERIF_SEED:-1}" generated/src/types.rs || exit 1
cargo build -q -p dv_check || exit 1
cargo build -q -p dv_http || exit 1
echo "setup ok"
